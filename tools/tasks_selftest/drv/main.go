package main

import (
	"fmt"
	"os"
	"strings"

	cli "example.com/t/verifcli"
	sim "example.com/t/verifsimrt"
)

func run(cfg sim.Config) (string, sim.Result) {
	r := sim.Run(cfg, cli.Main)
	var b strings.Builder
	for _, e := range r.Events {
		if e.Kind == "OUT" {
			b.WriteString(e.Data)
		}
	}
	return b.String(), r
}

func main() {
	outs := map[string]int{}
	for seed := 0; seed < 200; seed++ {
		for _, q := range []int{1, 3, 20, 200} {
			cfg := sim.Config{Args: []string{"t"}, StdinErrAt: -1, Budget: 1000000, SchedSeed: int64(seed), SchedQuantum: q, ClockTickUs: int64(seed%3) * 100}
			o1, r1 := run(cfg)
			o2, r2 := run(cfg)
			if o1 != o2 || r1.Switches != r2.Switches || len(r1.Events) != len(r2.Events) {
				fmt.Println("NONDETERMINISTIC", seed, q)
				os.Exit(1)
			}
			if r1.Panic != "" || r1.Budget {
				fmt.Println("PANIC/BUDGET", seed, q, r1.Panic, r1.Budget)
				os.Exit(1)
			}
			outs[o1]++
		}
	}
	want := "sum 6\ncount 40\nticks>=3 true\nfirst timer\nafter true true\nmailbox 15\nctx context deadline exceeded afterfunc\nctx2 context canceled context canceled\nsyncmap [0 1 2 3 4]\nslept true\n"
	if len(outs) != 1 || outs[want] != 800 {
		fmt.Printf("WRONG RESULTS under some schedule: %q\n", outs)
		os.Exit(1)
	}
	_, r := run(sim.Config{Args: []string{"t", "deadlock"}, StdinErrAt: -1, Budget: 100000})
	if !strings.Contains(r.Panic, "deadlock") {
		fmt.Printf("deadlock not reported: panic=%q exit=%d\n", r.Panic, r.Exit)
		os.Exit(1)
	}
	if sim.Tainted != "" {
		fmt.Println("TAINTED", sim.Tainted)
		os.Exit(1)
	}
	fmt.Println("tasks self-test: 800 schedules, one result; deadlock reported")
}
