module drv

go 1.22

require example.com/t v0.0.0

replace example.com/t => ../src
