module example.com/t

go 1.22
