// A small concurrent program with known results under EVERY interleaving: the self-test of
// the task scheduler (verifsimrt/tasks.go) instruments it like the code under test and runs
// it under 800 schedules.
package main

import (
	"context"
	"fmt"
	"sort"
	"os"
	"sync"
	"time"
)

type counter struct {
	mu sync.Mutex
	n  int
}

func (c *counter) inc() {
	c.mu.Lock()
	defer c.mu.Unlock()
	c.n++
}

func producer(ch chan int, n int, wg *sync.WaitGroup) {
	defer wg.Done()
	for i := 0; i < n; i++ {
		ch <- i
	}
}

func main() {
	mode := "all"
	if len(os.Args) > 1 {
		mode = os.Args[1]
	}
	if mode == "deadlock" {
		ch := make(chan int)
		fmt.Println("before")
		<-ch
		fmt.Println("never")
	}
	// unbuffered rendezvous, two producers, one consumer
	ch := make(chan int)
	var wg sync.WaitGroup
	wg.Add(2)
	go producer(ch, 3, &wg)
	go producer(ch, 3, &wg)
	go func() { wg.Wait(); close(ch) }()
	sum := 0
	for v := range ch {
		sum += v
	}
	fmt.Println("sum", sum)
	// mutex + waitgroup
	c := &counter{}
	var wg2 sync.WaitGroup
	for i := 0; i < 4; i++ {
		wg2.Add(1)
		go func() {
			defer wg2.Done()
			for j := 0; j < 10; j++ {
				c.inc()
			}
		}()
	}
	wg2.Wait()
	fmt.Println("count", c.n)
	// ticker + done + select
	done := make(chan struct{})
	ticks := 0
	t := time.NewTicker(10 * time.Millisecond)
	go func() {
		time.Sleep(35 * time.Millisecond)
		close(done)
	}()
loop:
	for {
		select {
		case <-t.C:
			ticks++
		case <-done:
			break loop
		}
	}
	t.Stop()
	fmt.Println("ticks>=3", ticks >= 3) // (a slow machine may see a fourth tick ready together with done)
	// AfterFunc + once + buffered channel
	var once sync.Once
	res := make(chan string, 2)
	time.AfterFunc(5*time.Millisecond, func() { once.Do(func() { res <- "timer" }) })
	go func() { time.Sleep(20 * time.Millisecond); once.Do(func() { res <- "sleeper" }) }()
	fmt.Println("first", <-res)
	v, ok := <-time.After(time.Millisecond)
	fmt.Println("after", ok, !v.IsZero())
	// sync.Cond: a single-slot mailbox between a producer and this goroutine
	var mu sync.Mutex
	cond := sync.NewCond(&mu)
	slot, full := 0, false
	go func() {
		for i := 1; i <= 5; i++ {
			mu.Lock()
			for full {
				cond.Wait()
			}
			slot, full = i, true
			cond.Broadcast()
			mu.Unlock()
		}
	}()
	got := 0
	for n := 0; n < 5; n++ {
		mu.Lock()
		for !full {
			cond.Wait()
		}
		got += slot
		full = false
		cond.Broadcast()
		mu.Unlock()
	}
	fmt.Println("mailbox", got)
	// context: a deadline that expires, one that is cancelled first, AfterFunc
	ctx, cancel := context.WithTimeout(context.Background(), 50*time.Millisecond)
	fired := make(chan string, 1)
	context.AfterFunc(ctx, func() { fired <- "afterfunc" })
	<-ctx.Done()
	fmt.Println("ctx", ctx.Err(), <-fired)
	cancel()
	ctx2, cancel2 := context.WithTimeout(context.Background(), time.Hour)
	child, cancelChild := context.WithCancel(ctx2)
	cancel2()
	<-child.Done()
	fmt.Println("ctx2", ctx2.Err(), child.Err())
	cancelChild()
	// sync.Map: whatever the order of Range, the set is the same
	var sm sync.Map
	for i := 0; i < 5; i++ {
		sm.Store(i, i*i)
	}
	var ks []int
	sm.Range(func(k, v any) bool { ks = append(ks, k.(int)); return true })
	sort.Ints(ks)
	fmt.Println("syncmap", ks)
	start := time.Now()
	time.Sleep(time.Second)
	fmt.Println("slept", time.Since(start) >= time.Second)
}
