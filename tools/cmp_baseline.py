import json,sys
base=json.load(open('/root/.vp/BASELINE.json'))
want=set(base['stable_pass'])
got={}
for l in sys.stdin:
    try: e=json.loads(l)
    except: continue
    if e.get('Action') in ('pass','fail') and e.get('Test'):
        got[e['Package']+'::'+e['Test']]=e['Action']
bad=[t for t in want if got.get(t)!='pass']
if bad:
    print('baseline tests no longer passing:',bad[:5]); sys.exit(1)
print('baseline ok (%d stable tests pass)'%len(want))
