#!/bin/bash
# determinism.sh <ID> [runs=32] — proves that one VERIF_SEED is one exactly repeatable
# execution: builds the harness once from /repo's working tree, then runs the quick tier
# <runs> times with the same seed under GOMAXPROCS 1, 4, 16 and worker counts 1, 4, 16,
# logging (case hash, history digest, #violations) for every evaluated case, and diffs
# the logs per worker-count group. Exit 0 = all identical.
set -u
ID="$1"; N="${2:-32}"
VERIF="$(cd "$(dirname "$0")/.." && pwd)"
export GOFLAGS=-mod=mod GOPROXY=off GOSUMDB=off GOTOOLCHAIN=local
S="$(mktemp -d /tmp/bornodet.XXXXXX)"; trap 'rm -rf "$S"' EXIT
mkdir "$S/src" "$S/harness" "$S/v"
rsync -a --exclude .git --exclude '*_test.go' /repo/ "$S/src/"
"$VERIF/bin/instrument" -dir "$S/src" -simrt "$VERIF/sim/simrt" || exit 2
cp "$VERIF"/sim/harness/*.go "$S/harness/"
printf 'module bornosim\n\ngo 1.22\n\nrequire (\n\tgithub.com/ah-naf/borno v0.0.0\n\tpgregory.net/rapid v1.3.0\n)\n\nreplace github.com/ah-naf/borno => ../src\n' > "$S/harness/go.mod"
cat /repo/go.sum > "$S/harness/go.sum"
(cd "$S/harness" && go build -o "$S/bornosim" .) || exit 2
cp "$VERIF/known_findings.json" "$S/v/"
export VERIF_DIR="$S/v" VERIF_EXAMPLES_DIR="$S/src/example" VERIF_SEED="${VERIF_SEED:-7}"
fail=0
for W in 1 4 16; do
  ref=""
  n=$(( N / 3 + 1 ))
  for i in $(seq 1 $n); do
    gmp=$(( (i % 3 == 0) ? 1 : ((i % 3 == 1) ? 4 : 16) ))
    d="$S/log.$W.$i"; mkdir "$d"
    GOMAXPROCS=$gmp VERIF_WORKERS=$W VERIF_DIGEST_LOG="$d/dig" "$S/bornosim" check "$ID" quick > "$d/out" 2>&1 || { echo "check exited non-zero:"; tail -3 "$d/out"; }
    cat $(ls "$d"/dig.* | sort -V) > "$d/all"
    if [ -z "$ref" ]; then ref="$d/all"; else
      if ! cmp -s "$ref" "$d/all"; then echo "DIVERGENCE: workers=$W run $i differs from run 1"; diff "$ref" "$d/all" | head -5; fail=1; fi
    fi
  done
  echo "workers=$W: $n runs, $(wc -l < "$ref") case evaluations each, identical=$([ $fail -eq 0 ] && echo yes || echo NO)"
done
exit $fail
