#!/bin/bash
# regress.sh [name-prefix ...] — run the quick checks against every kept change in seeded/
# (bug seeds must be caught by a check named in meta.json "expect_caught_by"; refactors must
# raise no alarm). Works on a private snapshot: a copy of /verif and a scratch git worktree of
# /repo at HEAD (both under a mktemp directory, removed at the end), so neither /repo, nor
# /verif/evidence, nor a concurrently edited harness is touched.
set -u
export GOFLAGS=-mod=mod GOPROXY=off GOSUMDB=off GOTOOLCHAIN=local
SNAP="$(mktemp -d /tmp/regress.XXXXXX)"
cleanup() { git -C /repo worktree remove --force "$SNAP/repo" 2>/dev/null; rm -rf "$SNAP"; git -C /repo worktree prune; }
trap cleanup EXIT
rsync -a --exclude .git --exclude replays /verif/ "$SNAP/verif/"
git -C /repo worktree add -q --detach "$SNAP/repo" HEAD || exit 2
R="$SNAP/repo"; V="$SNAP/verif"
(cd "$V" && ./check setup) || exit 2
fail=0
pats=("$@"); [ ${#pats[@]} -eq 0 ] && pats=("")
for pat in "${pats[@]}"; do
for d in "$V"/seeded/${pat}*/; do
  n=$(basename "$d")
  [ -f "$d/patch.diff" ] || continue
  exp=$(python3 -c "import json; m=json.load(open('$d/meta.json')); print(' '.join(m.get('expect_caught_by',[])))" 2>/dev/null)
  kind=$(python3 -c "import json; print(json.load(open('$d/meta.json')).get('kind','bug'))" 2>/dev/null)
  git -C "$R" reset -q --hard HEAD; git -C "$R" clean -fdq
  if ! git -C "$R" apply "$d/patch.diff" 2>/dev/null; then
    if ! git -C "$R" apply -3 "$d/patch.diff" >/dev/null 2>&1; then echo "$n: PATCH-DOES-NOT-APPLY (the tree has moved on since the change was made)"; continue; fi
  fi
  if ! (cd "$R" && go build ./... 2>/dev/null); then echo "$n: BUILD-FAILS"; continue; fi
  if [ "$kind" = "refactor" ]; then ids="C06 C12 C13 C17 C19 C20"; else ids="$exp"; fi
  res=""; caught=0
  for id in $ids; do
    VERIF_REPO="$R" "$V/check" $id quick >"$SNAP/out.$id" 2>&1; rc=$?
    res="$res $id=$rc"
    [ $rc -eq 1 ] && caught=1
    [ $rc -eq 2 ] && res="$res(!)"
  done
  if [ "$kind" = "refactor" ]; then
    if echo "$res" | grep -q "=[12]"; then echo "$n: FALSE-ALARM$res"; fail=1; else echo "$n: quiet$res"; fi
  elif [ -z "$exp" ]; then echo "$n: (not expected to be caught)"
  else
    if [ $caught -eq 1 ]; then echo "$n: caught$res"; else echo "$n: MISSED$res"; fail=1; fi
  fi
done
done
exit $fail
