#!/bin/bash
# regress.sh [name-prefix] — run the quick checks against every kept change in seeded/
# (bug seeds must be caught by a check named in meta.json "expect_caught_by"; refactors must
# raise no alarm). Applies each patch to /repo (3-way if needed), runs, and undoes it.
set -u
cd /verif
pat="${1:-}"
fail=0
for d in seeded/${pat}*/; do
  n=$(basename "$d")
  [ -f "$d/patch.diff" ] || continue
  exp=$(python3 -c "import json,sys; m=json.load(open('$d/meta.json')); print(' '.join(m.get('expect_caught_by',[])))" 2>/dev/null)
  kind=$(python3 -c "import json; print(json.load(open('$d/meta.json')).get('kind','bug'))" 2>/dev/null)
  if ! git -C /repo diff --quiet; then echo "repo dirty"; exit 2; fi
  if ! git -C /repo apply "$PWD/$d/patch.diff" 2>/dev/null; then
    if ! git -C /repo apply -3 "$PWD/$d/patch.diff" >/dev/null 2>&1; then echo "$n: PATCH-DOES-NOT-APPLY (the tree has moved on since the change was made)"; git -C /repo reset -q --hard HEAD; continue; fi
    git -C /repo reset -q
  fi
  if ! (cd /repo && go build ./... 2>/dev/null); then echo "$n: BUILD-FAILS"; git -C /repo checkout -q -- .; git -C /repo clean -fdq; continue; fi
  if [ "$kind" = "refactor" ]; then ids="C06 C12 C13 C17 C19 C20"; else ids="$exp"; fi
  res=""
  caught=0
  for id in $ids; do
    out=$(./check $id quick 2>&1); rc=$?
    res="$res $id=$rc"
    [ $rc -eq 1 ] && caught=1
    [ $rc -eq 2 ] && res="$res(!)"
  done
  git -C /repo checkout -q -- . ; git -C /repo clean -fdq
  if [ "$kind" = "refactor" ]; then
    if echo "$res" | grep -q "=[12]"; then echo "$n: FALSE-ALARM$res"; fail=1; else echo "$n: quiet$res"; fi
  elif [ -z "$exp" ]; then echo "$n: (not expected to be caught)"
  else
    if [ $caught -eq 1 ]; then echo "$n: caught$res"; else echo "$n: MISSED$res"; fail=1; fi
  fi
done
exit $fail
