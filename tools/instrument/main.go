// instrument rewrites a scratch copy of ah-naf/Borno so that every interaction
// with the host goes through package verifsimrt (see /verif/sim/simrt). It is
// keyed on resolved objects (go/types), not on text.
//
//	instrument -dir <scratch/src> -simrt <path to simrt sources> [-report out.json]
//
// Exit status: 0 ok; 2 anything it cannot handle (never reported as a violation).
package main

import (
	"bytes"
	"encoding/json"
	"flag"
	"fmt"
	"go/ast"
	"go/format"
	"go/parser"
	"go/printer"
	"go/token"
	"go/types"
	"os"
	"path/filepath"
	"sort"
	"strings"

	"golang.org/x/tools/go/ast/astutil"
	"golang.org/x/tools/go/packages"
)

const simPkgName = "verifsimrt"

type report struct {
	Module      string         `json:"module"`
	Packages    []string       `json:"packages"`
	Rewrites    map[string]int `json:"rewrites"`
	RangeSites  []string       `json:"range_sites"`
	Builtins    []string       `json:"builtins"`
	Unmodelled  []string       `json:"unmodelled"`
	ResetVars   []string       `json:"reset_vars"`
	MainMovedTo string         `json:"main_moved_to"`
	Warnings    []string       `json:"warnings"`
}

var rep = report{Rewrites: map[string]int{}}

func die(format string, a ...interface{}) {
	fmt.Fprintf(os.Stderr, "instrument: "+format+"\n", a...)
	os.Exit(2)
}

func main() {
	dir := flag.String("dir", "", "root of the scratch copy (module root)")
	simrt := flag.String("simrt", "", "directory holding the verifsimrt sources")
	repPath := flag.String("report", "", "write a JSON report here")
	flag.Parse()
	if *dir == "" || *simrt == "" {
		die("need -dir and -simrt")
	}
	abs, err := filepath.Abs(*dir)
	if err != nil {
		die("%v", err)
	}

	cfg := &packages.Config{
		Mode: packages.NeedName | packages.NeedFiles | packages.NeedCompiledGoFiles | packages.NeedSyntax |
			packages.NeedTypes | packages.NeedTypesInfo | packages.NeedImports | packages.NeedModule | packages.NeedDeps,
		Dir:   abs,
		Tests: false,
		Env:   append(os.Environ(), "GOFLAGS=-mod=mod", "GOPROXY=off", "GOSUMDB=off", "GOTOOLCHAIN=local"),
	}
	pkgs, err := packages.Load(cfg, "./...")
	if err != nil {
		die("load: %v", err)
	}
	if packages.PrintErrors(pkgs) > 0 {
		die("the tree does not type-check")
	}
	if len(pkgs) == 0 {
		die("no packages")
	}
	sort.Slice(pkgs, func(i, j int) bool { return pkgs[i].PkgPath < pkgs[j].PkgPath })
	modPath := ""
	for _, p := range pkgs {
		if p.Module != nil {
			modPath = p.Module.Path
		}
	}
	if modPath == "" {
		die("no module path")
	}
	rep.Module = modPath
	simPath := modPath + "/" + simPkgName

	// find the Callable interface (any package of the module that declares an
	// interface named Callable with a Call method)
	var callable *types.Interface
	var userFnType types.Type
	for _, p := range pkgs {
		if o := p.Types.Scope().Lookup("Callable"); o != nil {
			if it, ok := o.Type().Underlying().(*types.Interface); ok {
				callable = it
				if f := p.Types.Scope().Lookup("Function"); f != nil {
					userFnType = f.Type()
				}
			}
		}
	}

	for _, p := range pkgs {
		rep.Packages = append(rep.Packages, p.PkgPath)
		instrumentPackage(p, simPath, callable, userFnType, abs)
	}

	// copy simrt sources
	dst := filepath.Join(abs, simPkgName)
	if err := os.MkdirAll(dst, 0o755); err != nil {
		die("%v", err)
	}
	ents, err := os.ReadDir(*simrt)
	if err != nil {
		die("%v", err)
	}
	for _, e := range ents {
		if !strings.HasSuffix(e.Name(), ".go") || strings.HasSuffix(e.Name(), "_test.go") {
			continue
		}
		b, err := os.ReadFile(filepath.Join(*simrt, e.Name()))
		if err != nil {
			die("%v", err)
		}
		if err := os.WriteFile(filepath.Join(dst, e.Name()), b, 0o644); err != nil {
			die("%v", err)
		}
	}

	sort.Strings(rep.RangeSites)
	sort.Strings(rep.Builtins)
	sort.Strings(rep.Unmodelled)
	if *repPath != "" {
		b, _ := json.MarshalIndent(rep, "", " ")
		if err := os.WriteFile(*repPath, b, 0o644); err != nil {
			die("%v", err)
		}
	}
}

func simSel(name string) *ast.SelectorExpr {
	return &ast.SelectorExpr{X: ast.NewIdent(simPkgName), Sel: ast.NewIdent(name)}
}

func simCallStmt(name string, args ...ast.Expr) ast.Stmt {
	return &ast.ExprStmt{X: &ast.CallExpr{Fun: simSel(name), Args: args}}
}

func strLit(s string) *ast.BasicLit {
	return &ast.BasicLit{Kind: token.STRING, Value: fmt.Sprintf("%q", s)}
}

// pkgFunc reports (package path, name) if e is a qualified identifier pkg.Name.
func pkgFunc(info *types.Info, e ast.Expr) (string, string, bool) {
	sel, ok := e.(*ast.SelectorExpr)
	if !ok {
		return "", "", false
	}
	id, ok := sel.X.(*ast.Ident)
	if !ok {
		return "", "", false
	}
	pn, ok := info.Uses[id].(*types.PkgName)
	if !ok {
		return "", "", false
	}
	return pn.Imported().Path(), sel.Sel.Name, true
}

var printToFprint = map[string]string{"Print": "Fprint", "Println": "Fprintln", "Printf": "Fprintf"}
var scanToFscan = map[string]string{"Scan": "Fscan", "Scanln": "Fscanln", "Scanf": "Fscanf"}
var osVars = map[string]string{"Stdout": "Stdout", "Stderr": "Stderr", "Stdin": "Stdin", "Args": "Args",
	"File": "OSFile"} // (the type os.File: the simulated streams and files are values of verifsimrt.OSFile)
var osFuncs = map[string]string{
	"Exit": "Exit", "ReadFile": "ReadFile", "Open": "Open", "OpenFile": "OpenFile", "Create": "Create", "Stat": "Stat", "Lstat": "Lstat",
	"Getpid": "Getpid", "Getppid": "Getppid", "Hostname": "Hostname",
	"Getenv": "Getenv", "LookupEnv": "LookupEnv", "Environ": "Environ",
}
var timeFuncs = map[string]string{"Now": "Now", "Since": "Since", "Until": "Until", "Sleep": "Sleep",
	// timers and tickers (functions and the two types): simulated, see verifsimrt/tasks.go
	"Tick": "TimeTick", "NewTicker": "NewTicker", "NewTimer": "NewTimer", "After": "After", "AfterFunc": "AfterFunc", "Timer": "Timer", "Ticker": "Ticker"}

// os functions that touch the real host and that the simulator does not model
var osUnmodelled = map[string]bool{
	"WriteFile": true, "Remove": true, "RemoveAll": true, "Mkdir": true,
	"MkdirAll": true, "ReadDir": true, "Getwd": true, "Chdir": true,
	"Setenv": true, "Unsetenv": true, "Executable": true, "UserHomeDir": true, "TempDir": true, "Getuid": true,
	"StartProcess": true, "Pipe": true, "Rename": true,
}

func instrumentPackage(p *packages.Package, simPath string, callable *types.Interface, userFn types.Type, root string) {
	info := p.TypesInfo
	fset := p.Fset
	isMain := p.Name == "main"

	// reset function pieces, per file
	var orderedInit []string
	pieces := map[*ast.File][]string{}
	fileOf := func(pos token.Pos) *ast.File {
		for _, f := range p.Syntax {
			if f.Pos() <= pos && pos < f.End() {
				return f
			}
		}
		return nil
	}

	// 1. rewrite every file
	for fi, file := range p.Syntax {
		fname := p.CompiledGoFiles[fi]
		rel, _ := filepath.Rel(root, fname)
		usedSim := false
		siteN := 0

		// (0) goroutines, channel operations, select, blocking sync methods (verifsimrt/tasks.go)
		if instrumentConcurrency(file, info, fset) {
			usedSim = true
		}

		// (a) ticks and builtin markers, range-over-map: pre-order pass on statements
		astutil.Apply(file, func(c *astutil.Cursor) bool {
			return true
		}, func(c *astutil.Cursor) bool {
			switch n := c.Node().(type) {
			case *ast.FuncDecl:
				if n.Body == nil {
					return true
				}
				pre := []ast.Stmt{simCallStmt("Tick")}
				if n.Recv != nil && n.Name.Name == "Call" && callable != nil && len(n.Recv.List) == 1 {
					rt := info.TypeOf(n.Recv.List[0].Type)
					if rt != nil && (types.Implements(rt, callable) || types.Implements(types.NewPointer(rt), callable)) {
						base := rt
						if pt, ok := rt.(*types.Pointer); ok {
							base = pt.Elem()
						}
						if userFn == nil || !types.Identical(base, userFn) {
							name := types.TypeString(base, func(*types.Package) string { return "" })
							pre = append(pre, simCallStmt("Builtin", strLit(name)))
							rep.Builtins = append(rep.Builtins, name)
						}
					}
				}
				n.Body.List = append(pre, n.Body.List...)
				usedSim = true
			case *ast.FuncLit:
				n.Body.List = append([]ast.Stmt{simCallStmt("Tick")}, n.Body.List...)
				usedSim = true
			case *ast.ForStmt:
				n.Body.List = append([]ast.Stmt{simCallStmt("Tick")}, n.Body.List...)
				usedSim = true
			case *ast.RangeStmt:
				t := info.TypeOf(n.X)
				isMap := false
				if t != nil {
					_, isMap = t.Underlying().(*types.Map)
				}
				if isMap {
					siteN++
					site := fmt.Sprintf("%s#%d", rel, siteN)
					rep.RangeSites = append(rep.RangeSites, fmt.Sprintf("%s (line %d)", site, fset.Position(n.Pos()).Line))
					rep.Rewrites["range-over-map"]++
					// warn if the body mutates the ranged map
					ast.Inspect(n.Body, func(x ast.Node) bool {
						if ce, ok := x.(*ast.CallExpr); ok {
							if id, ok := ce.Fun.(*ast.Ident); ok && id.Name == "delete" {
								rep.Warnings = append(rep.Warnings, fmt.Sprintf("%s: delete inside range over map (snapshot semantics in the simulator)", fset.Position(ce.Pos())))
							}
						}
						return true
					})
					pv := ast.NewIdent("verifPair")
					var bind ast.Stmt
					keyBlank := n.Key == nil || isBlank(n.Key)
					valBlank := n.Value == nil || isBlank(n.Value)
					if !(keyBlank && valBlank) {
						lhsK, lhsV := ast.Expr(ast.NewIdent("_")), ast.Expr(ast.NewIdent("_"))
						if !keyBlank {
							lhsK = n.Key
						}
						if !valBlank {
							lhsV = n.Value
						}
						bind = &ast.AssignStmt{
							Lhs: []ast.Expr{lhsK, lhsV},
							Tok: n.Tok,
							Rhs: []ast.Expr{&ast.SelectorExpr{X: pv, Sel: ast.NewIdent("K")}, &ast.SelectorExpr{X: pv, Sel: ast.NewIdent("V")}},
						}
						if n.Tok != token.DEFINE && n.Tok != token.ASSIGN {
							bind.(*ast.AssignStmt).Tok = token.DEFINE
						}
					}
					n.X = &ast.CallExpr{Fun: simSel("Pairs"), Args: []ast.Expr{strLit(site), n.X}}
					body := []ast.Stmt{simCallStmt("Tick")}
					if bind != nil {
						n.Key = ast.NewIdent("_")
						n.Value = pv
						n.Tok = token.DEFINE
						body = append(body, bind)
					} else {
						n.Key, n.Value = nil, nil
						n.Tok = token.ILLEGAL
					}
					n.Body.List = append(body, n.Body.List...)
				} else {
					n.Body.List = append([]ast.Stmt{simCallStmt("Tick")}, n.Body.List...)
				}
				usedSim = true
			}
			return true
		})

		// (b) expression-level rewrites
		astutil.Apply(file, nil, func(c *astutil.Cursor) bool {
			switch n := c.Node().(type) {
			case *ast.CallExpr:
				if pp, name, ok := pkgFunc(info, n.Fun); ok {
					if pp == "maps" || pp == "golang.org/x/exp/maps" {
						if to, ok := map[string]string{"Keys": "MapKeys", "Values": "MapValues", "All": "MapAll"}[name]; ok && len(n.Args) == 1 && !(pp != "maps" && name == "All") {
							if pp != "maps" {
								to += "Slice"
							}
							siteN++
							site := fmt.Sprintf("%s#%d", rel, siteN)
							rep.RangeSites = append(rep.RangeSites, fmt.Sprintf("%s (line %d, %s.%s)", site, fset.Position(n.Pos()).Line, pp, name))
							n.Fun = simSel(to)
							n.Args = append([]ast.Expr{strLit(site)}, n.Args...)
							rep.Rewrites[pp+"."+name]++
							usedSim = true
						} else if name == "DeleteFunc" {
							rep.Warnings = append(rep.Warnings, fmt.Sprintf("%s: %s.%s walks a map in the runtime's order", fset.Position(n.Pos()), pp, name))
						}
					}
					if pp == "fmt" {
						if to, ok := printToFprint[name]; ok {
							n.Fun.(*ast.SelectorExpr).Sel = ast.NewIdent(to)
							n.Args = append([]ast.Expr{simSel("Stdout")}, n.Args...)
							rep.Rewrites["fmt."+name]++
							usedSim = true
						} else if to, ok := scanToFscan[name]; ok {
							n.Fun.(*ast.SelectorExpr).Sel = ast.NewIdent(to)
							n.Args = append([]ast.Expr{simSel("Stdin")}, n.Args...)
							rep.Rewrites["fmt."+name]++
							usedSim = true
						}
					}
				}
				if id, ok := n.Fun.(*ast.Ident); ok && (id.Name == "print" || id.Name == "println") {
					if _, isB := info.Uses[id].(*types.Builtin); isB {
						rep.Unmodelled = append(rep.Unmodelled, fmt.Sprintf("%s: builtin %s writes to the real stderr", fset.Position(n.Pos()), id.Name))
					}
				}
			case *ast.SelectorExpr:
				pp, name, ok := pkgFunc(info, n)
				if !ok {
					return true
				}
				switch pp {
				case "os":
					if to, ok := osVars[name]; ok {
						c.Replace(simSel(to))
						rep.Rewrites["os."+name]++
						usedSim = true
					} else if to, ok := osFuncs[name]; ok {
						c.Replace(simSel(to))
						rep.Rewrites["os."+name]++
						usedSim = true
					} else if osUnmodelled[name] {
						rep.Unmodelled = append(rep.Unmodelled, fmt.Sprintf("%s: os.%s", fset.Position(n.Pos()), name))
					}
				case "io/ioutil":
					if name == "ReadFile" {
						c.Replace(simSel("ReadFile"))
						rep.Rewrites["ioutil.ReadFile"]++
						usedSim = true
					}
				case "time":
					if to, ok := timeFuncs[name]; ok {
						c.Replace(simSel(to))
						rep.Rewrites["time."+name]++
						usedSim = true
					} else if name == "After" || name == "Tick" || name == "NewTimer" || name == "NewTicker" || name == "AfterFunc" {
						rep.Unmodelled = append(rep.Unmodelled, fmt.Sprintf("%s: time.%s", fset.Position(n.Pos()), name))
					}
				case "context":
					if to, ok := map[string]string{"WithTimeout": "CtxWithTimeout", "WithDeadline": "CtxWithDeadline", "AfterFunc": "CtxAfterFunc"}[name]; ok {
						c.Replace(simSel(to))
						rep.Rewrites["context."+name]++
						usedSim = true
					} else if name == "WithTimeoutCause" || name == "WithDeadlineCause" {
						rep.Unmodelled = append(rep.Unmodelled, fmt.Sprintf("%s: context.%s", fset.Position(n.Pos()), name))
					}
				case "flag":
					if name == "Parse" {
						c.Replace(simSel("FlagParse"))
						rep.Rewrites["flag.Parse"]++
						usedSim = true
					}
				case "math/rand", "math/rand/v2":
					if obj := info.Uses[n.Sel]; obj != nil {
						if _, isFunc := obj.(*types.Func); isFunc && !strings.HasPrefix(name, "New") {
							if pp == "math/rand" {
								c.Replace(&ast.SelectorExpr{X: simSel("Rand"), Sel: ast.NewIdent(name)})
								rep.Rewrites["rand."+name]++
								usedSim = true
							} else {
								rep.Unmodelled = append(rep.Unmodelled, fmt.Sprintf("%s: math/rand/v2.%s", fset.Position(n.Pos()), name))
							}
						}
					}
				case "runtime":
					if name == "Gosched" {
						c.Replace(simSel("Gosched"))
						rep.Rewrites["runtime.Gosched"]++
						usedSim = true
					} else if name == "ReadMemStats" {
						c.Replace(simSel("ReadMemStats"))
						rep.Rewrites["runtime.ReadMemStats"]++
						usedSim = true
					} else if name == "NumGoroutine" || name == "NumCPU" || name == "GOMAXPROCS" {
						rep.Unmodelled = append(rep.Unmodelled, fmt.Sprintf("%s: runtime.%s", fset.Position(n.Pos()), name))
					}
				case "sync":
					if name != "Mutex" && name != "RWMutex" && name != "WaitGroup" && name != "Once" && name != "Cond" && name != "NewCond" && name != "Locker" && name != "Map" {
						rep.Unmodelled = append(rep.Unmodelled, fmt.Sprintf("%s: sync.%s", fset.Position(n.Pos()), name))
					}
				case "io":
					if name == "Pipe" {
						rep.Unmodelled = append(rep.Unmodelled, fmt.Sprintf("%s: io.Pipe (blocks inside the standard library)", fset.Position(n.Pos())))
					}
				case "crypto/rand", "unsafe", "os/exec", "os/signal", "net", "syscall":
					rep.Unmodelled = append(rep.Unmodelled, fmt.Sprintf("%s: %s.%s", fset.Position(n.Pos()), pp, name))
				}
			}
			return true
		})

		// (c) package main becomes importable
		if isMain {
			file.Name = ast.NewIdent("bornocli")
			for _, d := range file.Decls {
				if fd, ok := d.(*ast.FuncDecl); ok && fd.Recv == nil && fd.Name.Name == "main" {
					fd.Name = ast.NewIdent("Main")
				}
			}
		}

		// (d) init() functions become callable from the reset
		for _, d := range file.Decls {
			if fd, ok := d.(*ast.FuncDecl); ok && fd.Recv == nil && fd.Name.Name == "init" {
				nm := fmt.Sprintf("verifInitFn%d_%d", fi, len(orderedInit))
				fd.Name = ast.NewIdent(nm)
				orderedInit = append(orderedInit, "F:"+nm)
			}
		}
		_ = usedSim
	}

	// 2. reset pieces: zero-valued vars first, then initialisers in InitOrder
	var calls []string
	n := 0
	for _, file := range p.Syntax {
		for _, d := range file.Decls {
			gd, ok := d.(*ast.GenDecl)
			if !ok || gd.Tok != token.VAR {
				continue
			}
			for _, s := range gd.Specs {
				vs := s.(*ast.ValueSpec)
				if len(vs.Values) != 0 || vs.Type == nil {
					continue
				}
				for _, nm := range vs.Names {
					if nm.Name == "_" {
						continue
					}
					fn := fmt.Sprintf("verifZero%d", n)
					n++
					src := fmt.Sprintf("func %s() { var z %s; %s = z }", fn, nodeString(p.Fset, vs.Type), nm.Name)
					pieces[file] = append(pieces[file], src)
					calls = append(calls, fn)
					rep.ResetVars = append(rep.ResetVars, p.PkgPath+"."+nm.Name)
				}
			}
		}
	}
	// the initialiser expressions as they are NOW in the syntax tree (the rewrite may
	// have replaced the very node types.Info.InitOrder still points to)
	type specAt struct {
		vs  *ast.ValueSpec
		idx int
	}
	specOf := map[types.Object]specAt{}
	for _, file := range p.Syntax {
		for _, d := range file.Decls {
			gd, ok := d.(*ast.GenDecl)
			if !ok || gd.Tok != token.VAR {
				continue
			}
			for _, sp := range gd.Specs {
				vs := sp.(*ast.ValueSpec)
				for i, nm := range vs.Names {
					if obj := info.Defs[nm]; obj != nil {
						specOf[obj] = specAt{vs, i}
					}
				}
			}
		}
	}
	for _, ini := range info.InitOrder {
		var lhs []string
		all := true
		for _, v := range ini.Lhs {
			lhs = append(lhs, v.Name())
			if v.Name() != "_" {
				all = false
			}
		}
		if all {
			continue
		}
		file := fileOf(ini.Rhs.Pos())
		if sa, ok := specOf[ini.Lhs[0]]; ok {
			// (the rewritten initialiser may have lost its position: `var t0 = time.Now()`)
			file = fileOf(sa.vs.Names[0].Pos())
		}
		if file == nil {
			die("initializer of %v not found in any file", lhs)
		}
		fn := fmt.Sprintf("verifInit%d", n)
		n++
		rhs := ini.Rhs
		if sa, ok := specOf[ini.Lhs[0]]; ok && len(sa.vs.Values) > 0 {
			if len(sa.vs.Values) == len(sa.vs.Names) {
				rhs = sa.vs.Values[sa.idx]
			} else {
				rhs = sa.vs.Values[0]
			}
		}
		src := fmt.Sprintf("func %s() { %s = %s }", fn, strings.Join(lhs, ", "), nodeString(p.Fset, rhs))
		pieces[file] = append(pieces[file], src)
		calls = append(calls, fn)
		for _, l := range lhs {
			rep.ResetVars = append(rep.ResetVars, p.PkgPath+"."+l)
		}
	}
	for _, oi := range orderedInit {
		calls = append(calls, strings.TrimPrefix(oi, "F:"))
	}

	// 3. write files back
	outDir := ""
	for fi, file := range p.Syntax {
		fname := p.CompiledGoFiles[fi]
		astutil.AddImport(p.Fset, file, simPath)
		var buf bytes.Buffer
		if err := printer.Fprint(&buf, p.Fset, file); err != nil {
			die("print %s: %v", fname, err)
		}
		for _, piece := range pieces[file] {
			buf.WriteString("\n" + piece + "\n")
		}
		src := buf.Bytes()
		src = fixImports(fname, src, simPath)
		out := fname
		if isMain {
			// always at the module root, wherever package main lives (cmd/..., root)
			outDir = filepath.Join(root, "verifcli")
			if err := os.MkdirAll(outDir, 0o755); err != nil {
				die("%v", err)
			}
			out = filepath.Join(outDir, filepath.Base(fname))
			os.Remove(fname)
			rel, _ := filepath.Rel(root, outDir)
			rep.MainMovedTo = rel
		}
		if err := os.WriteFile(out, src, 0o644); err != nil {
			die("%v", err)
		}
	}

	// 4. the reset file of the package
	dir := filepath.Dir(p.CompiledGoFiles[0])
	pkgName := p.Name
	if isMain {
		dir = outDir
		pkgName = "bornocli"
	}
	var b strings.Builder
	fmt.Fprintf(&b, "package %s\n\nimport %q\n\nfunc init() { %s.RegisterReset(verifReset) }\n\nfunc verifReset() {\n", pkgName, simPath, simPkgName)
	for _, c := range calls {
		fmt.Fprintf(&b, "\t%s()\n", c)
	}
	b.WriteString("}\n")
	if err := os.WriteFile(filepath.Join(dir, "zz_verif_reset.go"), []byte(b.String()), 0o644); err != nil {
		die("%v", err)
	}
}

func isBlank(e ast.Expr) bool {
	id, ok := e.(*ast.Ident)
	return ok && id.Name == "_"
}

func nodeString(fset *token.FileSet, n ast.Node) string {
	var buf bytes.Buffer
	if err := printer.Fprint(&buf, fset, n); err != nil {
		die("print node: %v", err)
	}
	return buf.String()
}

func parseSrc(fname string, src []byte) (*ast.File, *token.FileSet, error) {
	fset := token.NewFileSet()
	f, err := parser.ParseFile(fset, fname, src, parser.ParseComments)
	return f, fset, err
}

// fixImports removes imports that the rewrite left unused ("os", "time", ...)
// by re-parsing the printed file and checking selector uses textually on the
// AST (no type information needed: an import is unused iff its name never
// appears as the X of a selector or as a bare identifier).
func fixImports(fname string, src []byte, simPath string) []byte {
	f, fset, err := parseSrc(fname, src)
	if err != nil {
		die("rewritten %s does not parse: %v", fname, err)
	}
	used := map[string]bool{}
	ast.Inspect(f, func(n ast.Node) bool {
		if sel, ok := n.(*ast.SelectorExpr); ok {
			if id, ok := sel.X.(*ast.Ident); ok {
				used[id.Name] = true
			}
		}
		return true
	})
	for _, imp := range append([]*ast.ImportSpec(nil), f.Imports...) {
		path := strings.Trim(imp.Path.Value, "\"")
		name := ""
		if imp.Name != nil {
			name = imp.Name.Name
			if name == "_" || name == "." {
				continue
			}
		} else {
			name = path[strings.LastIndex(path, "/")+1:]
			if path == "math/rand/v2" {
				name = "rand"
			}
		}
		if !used[name] {
			if imp.Name != nil {
				astutil.DeleteNamedImport(fset, f, imp.Name.Name, path)
			} else {
				astutil.DeleteImport(fset, f, path)
			}
		}
	}
	var buf bytes.Buffer
	if err := format.Node(&buf, fset, f); err != nil {
		die("format %s: %v", fname, err)
	}
	return buf.Bytes()
}

// ---------------------------------------------------------------- concurrency

var selN, goN int

var labeledSelect = map[*ast.LabeledStmt]*ast.BlockStmt{}

func ident(format string, a ...interface{}) *ast.Ident { return ast.NewIdent(fmt.Sprintf(format, a...)) }

func intLit(i int) *ast.BasicLit { return &ast.BasicLit{Kind: token.INT, Value: fmt.Sprint(i)} }

func define(lhs []ast.Expr, rhs ...ast.Expr) *ast.AssignStmt {
	return &ast.AssignStmt{Lhs: lhs, Tok: token.DEFINE, Rhs: rhs}
}

func simCall(name string, args ...ast.Expr) *ast.CallExpr {
	return &ast.CallExpr{Fun: simSel(name), Args: args}
}

// rewriteSelect turns
//
//	select { case v, ok := <-a: A; case b <- x: B; default: D }
//
// into code that (1) evaluates the channel and value expressions once, as select does,
// (2) tries the communications one by one without blocking, in an order chosen by the
// schedule (Go picks among the ready ones at random: that choice is the schedule's now),
// (3) if none is ready runs the default clause or, without one, hands the baton on and tries
// again, and (4) dispatches to the chosen clause's body through a switch (break and labels
// keep their meaning; continue passes through to the enclosing loop as before).
func rewriteSelect(n *ast.SelectStmt, parent ast.Node, fset *token.FileSet) *ast.BlockStmt {
	selN++
	id := selN
	chosen := ident("verifChosen%d", id)
	var pre []ast.Stmt
	var tryCases, bodyCases []ast.Stmt
	ncomm := 0
	defaultIdx := -1
	for i, cl := range n.Body.List {
		cc := cl.(*ast.CommClause)
		body := append([]ast.Stmt(nil), cc.Body...)
		if cc.Comm == nil {
			defaultIdx = i
			bodyCases = append(bodyCases, &ast.CaseClause{List: []ast.Expr{intLit(i)}, Body: body})
			continue
		}
		ncomm++
		chv := ident("verifC%d_%d", id, i)
		var tryBody []ast.Stmt
		setChosen := &ast.AssignStmt{Lhs: []ast.Expr{chosen}, Tok: token.ASSIGN, Rhs: []ast.Expr{intLit(i)}}
		switch st := cc.Comm.(type) {
		case *ast.SendStmt:
			sv := ident("verifS%d_%d", id, i)
			pre = append(pre, define([]ast.Expr{chv}, st.Chan), define([]ast.Expr{sv}, simCall("SendVal", chv, st.Value)))
			tryBody = []ast.Stmt{&ast.IfStmt{Cond: simCall("TrySend", chv, sv), Body: &ast.BlockStmt{List: []ast.Stmt{setChosen}}}}
		case *ast.ExprStmt:
			u := st.X
			for {
				if p, ok := u.(*ast.ParenExpr); ok {
					u = p.X
					continue
				}
				break
			}
			pre = append(pre, define([]ast.Expr{chv}, u.(*ast.UnaryExpr).X))
			got := ident("verifGot")
			tryBody = []ast.Stmt{&ast.IfStmt{Init: define([]ast.Expr{ast.NewIdent("_"), ast.NewIdent("_"), got}, simCall("TryRecv", chv)), Cond: got, Body: &ast.BlockStmt{List: []ast.Stmt{setChosen}}}}
		case *ast.AssignStmt:
			u := st.Rhs[0]
			for {
				if p, ok := u.(*ast.ParenExpr); ok {
					u = p.X
					continue
				}
				break
			}
			vv, kv := ident("verifV%d_%d", id, i), ident("verifK%d_%d", id, i)
			pre = append(pre, define([]ast.Expr{chv}, u.(*ast.UnaryExpr).X), define([]ast.Expr{vv}, simCall("ZeroOf", chv)), define([]ast.Expr{kv}, ast.NewIdent("false")),
				&ast.AssignStmt{Lhs: []ast.Expr{ast.NewIdent("_"), ast.NewIdent("_")}, Tok: token.ASSIGN, Rhs: []ast.Expr{vv, kv}})
			tv, tk, got := ident("verifTV"), ident("verifTK"), ident("verifGot")
			tryBody = []ast.Stmt{&ast.IfStmt{Init: define([]ast.Expr{tv, tk, got}, simCall("TryRecv", chv)), Cond: got, Body: &ast.BlockStmt{List: []ast.Stmt{
				&ast.AssignStmt{Lhs: []ast.Expr{vv, kv}, Tok: token.ASSIGN, Rhs: []ast.Expr{tv, tk}}, setChosen}}}}
			rhs := []ast.Expr{vv}
			if len(st.Lhs) == 2 {
				rhs = append(rhs, kv)
			}
			body = append([]ast.Stmt{&ast.AssignStmt{Lhs: st.Lhs, Tok: st.Tok, Rhs: rhs}}, body...)
		}
		tryCases = append(tryCases, &ast.CaseClause{List: []ast.Expr{intLit(i)}, Body: tryBody})
		bodyCases = append(bodyCases, &ast.CaseClause{List: []ast.Expr{intLit(i)}, Body: body})
	}
	// the order in which the communications are tried: positions among the clauses
	var idxs []ast.Expr
	for i, cl := range n.Body.List {
		if cl.(*ast.CommClause).Comm != nil {
			idxs = append(idxs, intLit(i))
		}
	}
	iv := ident("verifI%d", id)
	var none ast.Stmt = simCallStmt("YieldBlocked")
	if defaultIdx >= 0 {
		none = &ast.AssignStmt{Lhs: []ast.Expr{chosen}, Tok: token.ASSIGN, Rhs: []ast.Expr{intLit(defaultIdx)}}
	}
	loop := &ast.ForStmt{
		Cond: &ast.BinaryExpr{X: chosen, Op: token.LSS, Y: intLit(0)},
		Body: &ast.BlockStmt{List: []ast.Stmt{
			&ast.RangeStmt{Key: ast.NewIdent("_"), Value: iv, Tok: token.DEFINE, X: simCall("SelectOrder", idxs...), Body: &ast.BlockStmt{List: []ast.Stmt{
				&ast.SwitchStmt{Tag: iv, Body: &ast.BlockStmt{List: tryCases}},
				&ast.IfStmt{Cond: &ast.BinaryExpr{X: chosen, Op: token.GEQ, Y: intLit(0)}, Body: &ast.BlockStmt{List: []ast.Stmt{&ast.BranchStmt{Tok: token.BREAK}}}},
			}}},
			&ast.IfStmt{Cond: &ast.BinaryExpr{X: chosen, Op: token.LSS, Y: intLit(0)}, Body: &ast.BlockStmt{List: []ast.Stmt{none}}},
		}},
	}
	// (a default clause that cannot be reached keeps the switch a terminating statement exactly
	// when the select was one: `func f() T { select { case ...: return x } }` must still compile)
	bodyCases = append(bodyCases, &ast.CaseClause{Body: []ast.Stmt{&ast.ExprStmt{X: &ast.CallExpr{Fun: ast.NewIdent("panic"), Args: []ast.Expr{strLit("verifsimrt: select dispatch")}}}}})
	var dispatch ast.Stmt = &ast.SwitchStmt{Tag: chosen, Body: &ast.BlockStmt{List: bodyCases}}
	if ls, ok := parent.(*ast.LabeledStmt); ok && ls.Stmt == n {
		dispatch = &ast.LabeledStmt{Label: ast.NewIdent(ls.Label.Name), Stmt: dispatch}
	}
	stmts := append(pre, define([]ast.Expr{chosen}, &ast.UnaryExpr{Op: token.SUB, X: intLit(1)}), loop, dispatch)
	return &ast.BlockStmt{List: stmts}
}

var syncMethods = map[string]string{
	"(*sync.Mutex).Lock": "MutexLock", "(*sync.Mutex).Unlock": "MutexUnlock",
	"(*sync.RWMutex).Lock": "RWLock", "(*sync.RWMutex).Unlock": "RWUnlock", "(*sync.RWMutex).RLock": "RWRLock", "(*sync.RWMutex).RUnlock": "RWRUnlock",
	"(*sync.WaitGroup).Add": "WGAdd", "(*sync.WaitGroup).Done": "WGDone", "(*sync.WaitGroup).Wait": "WGWait",
	"(*sync.Once).Do": "OnceDo",
	"(*sync.Cond).Wait": "CondWait", "(*sync.Cond).Signal": "CondSignal", "(*sync.Cond).Broadcast": "CondBroadcast",
	"(*sync.Map).Range": "SyncMapRange",
}

// instrumentConcurrency rewrites, in one file:
//   go f(a, b)            -> { verifGoF := f; verifGoA0 := a; ...; verifsimrt.Go(func() { verifGoF(verifGoA0, ...) }) }
//   <-ch                  -> verifsimrt.Recv(ch)            (v, ok := <-ch -> verifsimrt.Recv2(ch))
//   ch <- v               -> verifsimrt.Send(ch, v)
//   for v := range ch {}  -> for { verifV, verifOK := verifsimrt.Recv2(ch); if !verifOK { break }; v := verifV; ... }
//   select without default-> L: select { ...; default: verifsimrt.YieldBlocked(); goto L }
//   mu.Lock() etc.        -> verifsimrt.MutexLock(&mu) etc.
// The communication operations that head the clauses of a select stay as they are (they are
// tried without blocking by the select itself).
func instrumentConcurrency(file *ast.File, info *types.Info, fset *token.FileSet) bool {
	used := false
	inComm := map[ast.Node]bool{}
	ast.Inspect(file, func(n ast.Node) bool {
		if cc, ok := n.(*ast.CommClause); ok && cc.Comm != nil {
			switch st := cc.Comm.(type) {
			case *ast.ExprStmt:
				inComm[st.X] = true
			case *ast.AssignStmt:
				if len(st.Rhs) == 1 {
					inComm[st.Rhs[0]] = true
				}
				inComm[st] = true
			case *ast.SendStmt:
				inComm[st] = true
			}
		}
		return true
	})
	isRecv := func(e ast.Expr) (*ast.UnaryExpr, bool) {
		for {
			if p, ok := e.(*ast.ParenExpr); ok {
				e = p.X
				continue
			}
			break
		}
		u, ok := e.(*ast.UnaryExpr)
		return u, ok && u.Op == token.ARROW
	}
	astutil.Apply(file, func(c *astutil.Cursor) bool {
		switch n := c.Node().(type) {
		case *ast.AssignStmt:
			if len(n.Lhs) == 2 && len(n.Rhs) == 1 && !inComm[n] {
				if u, ok := isRecv(n.Rhs[0]); ok && !inComm[u] {
					n.Rhs[0] = &ast.CallExpr{Fun: simSel("Recv2"), Args: []ast.Expr{u.X}}
					rep.Rewrites["chan receive"]++
					used = true
				}
			}
		case *ast.ValueSpec:
			if len(n.Names) == 2 && len(n.Values) == 1 {
				if u, ok := isRecv(n.Values[0]); ok {
					n.Values[0] = &ast.CallExpr{Fun: simSel("Recv2"), Args: []ast.Expr{u.X}}
					rep.Rewrites["chan receive"]++
					used = true
				}
			}
		case *ast.UnaryExpr:
			if n.Op == token.ARROW && !inComm[n] {
				c.Replace(&ast.CallExpr{Fun: simSel("Recv"), Args: []ast.Expr{n.X}})
				rep.Rewrites["chan receive"]++
				used = true
			}
		case *ast.SendStmt:
			if !inComm[n] {
				c.Replace(&ast.ExprStmt{X: &ast.CallExpr{Fun: simSel("Send"), Args: []ast.Expr{n.Chan, n.Value}}})
				rep.Rewrites["chan send"]++
				used = true
			}
		}
		return true
	}, func(c *astutil.Cursor) bool {
		switch n := c.Node().(type) {
		case *ast.GoStmt:
			goN++
			var pre []ast.Stmt
			call := &ast.CallExpr{Fun: n.Call.Fun, Ellipsis: n.Call.Ellipsis}
			if _, isLit := n.Call.Fun.(*ast.FuncLit); !isLit {
				fv := ast.NewIdent(fmt.Sprintf("verifGoF%d", goN))
				pre = append(pre, &ast.AssignStmt{Lhs: []ast.Expr{fv}, Tok: token.DEFINE, Rhs: []ast.Expr{n.Call.Fun}})
				call.Fun = fv
			} else {
				call.Fun = &ast.ParenExpr{X: n.Call.Fun}
			}
			for i, a := range n.Call.Args {
				av := ast.NewIdent(fmt.Sprintf("verifGoA%d_%d", goN, i))
				pre = append(pre, &ast.AssignStmt{Lhs: []ast.Expr{av}, Tok: token.DEFINE, Rhs: []ast.Expr{a}})
				call.Args = append(call.Args, av)
			}
			lit := &ast.FuncLit{Type: &ast.FuncType{Params: &ast.FieldList{}}, Body: &ast.BlockStmt{List: []ast.Stmt{&ast.ExprStmt{X: call}}}}
			pre = append(pre, &ast.ExprStmt{X: &ast.CallExpr{Fun: simSel("Go"), Args: []ast.Expr{lit}}})
			c.Replace(&ast.BlockStmt{List: pre})
			rep.Rewrites["go statement"]++
			used = true
		case *ast.RangeStmt:
			t := info.TypeOf(n.X)
			if t == nil {
				return true
			}
			if _, isChan := t.Underlying().(*types.Chan); !isChan {
				return true
			}
			selN++
			chv := ast.NewIdent(fmt.Sprintf("verifCh%d", selN)) // the ranged expression is evaluated once
			vv, okv := ast.NewIdent("verifV"), ast.NewIdent("verifOK")
			lhsV := ast.Expr(vv)
			keyUsed := n.Key != nil && !isBlank(n.Key)
			if !keyUsed {
				lhsV = ast.NewIdent("_")
			}
			body := []ast.Stmt{
				&ast.AssignStmt{Lhs: []ast.Expr{lhsV, okv}, Tok: token.DEFINE, Rhs: []ast.Expr{&ast.CallExpr{Fun: simSel("Recv2"), Args: []ast.Expr{chv}}}},
				&ast.IfStmt{Cond: &ast.UnaryExpr{Op: token.NOT, X: okv}, Body: &ast.BlockStmt{List: []ast.Stmt{&ast.BranchStmt{Tok: token.BREAK}}}},
			}
			if keyUsed {
				tok := n.Tok
				if tok != token.ASSIGN {
					tok = token.DEFINE
				}
				body = append(body, &ast.AssignStmt{Lhs: []ast.Expr{n.Key}, Tok: tok, Rhs: []ast.Expr{vv}})
				if tok == token.DEFINE {
					body = append(body, &ast.AssignStmt{Lhs: []ast.Expr{ast.NewIdent("_")}, Tok: token.ASSIGN, Rhs: []ast.Expr{n.Key}})
				}
			}
			body = append(body, n.Body.List...)
			c.Replace(&ast.ForStmt{
				Init: &ast.AssignStmt{Lhs: []ast.Expr{chv}, Tok: token.DEFINE, Rhs: []ast.Expr{n.X}},
				Body: &ast.BlockStmt{List: body},
			})
			rep.Rewrites["range over channel"]++
			used = true
		case *ast.SelectStmt:
			blk := rewriteSelect(n, c.Parent(), fset)
			if ls, ok := c.Parent().(*ast.LabeledStmt); ok && ls.Stmt == n {
				labeledSelect[ls] = blk
			} else {
				c.Replace(blk)
			}
			rep.Rewrites["select"]++
			used = true
		case *ast.LabeledStmt:
			if blk, ok := labeledSelect[n]; ok {
				c.Replace(blk)
			}
		case *ast.CallExpr:
			sel, ok := n.Fun.(*ast.SelectorExpr)
			if !ok {
				return true
			}
			fn, ok := info.Uses[sel.Sel].(*types.Func)
			if !ok || fn.Pkg() == nil || fn.Pkg().Path() != "sync" {
				return true
			}
			to, ok := syncMethods[fn.FullName()]
			if !ok {
				rep.Unmodelled = append(rep.Unmodelled, fmt.Sprintf("%s: %s", fset.Position(n.Pos()), fn.FullName()))
				return true
			}
			recv := sel.X
			if s := info.Selections[sel]; s != nil {
				// promoted method: spell out the embedded fields
				idx := s.Index()
				t := s.Recv()
				for _, i := range idx[:len(idx)-1] {
					if p, ok := t.Underlying().(*types.Pointer); ok {
						t = p.Elem()
					}
					st, ok := t.Underlying().(*types.Struct)
					if !ok {
						break
					}
					f := st.Field(i)
					recv = &ast.SelectorExpr{X: recv, Sel: ast.NewIdent(f.Name())}
					t = f.Type()
				}
				if _, isPtr := t.Underlying().(*types.Pointer); !isPtr {
					recv = &ast.UnaryExpr{Op: token.AND, X: recv}
				}
			}
			n.Fun = simSel(to)
			n.Args = append([]ast.Expr{recv}, n.Args...)
			rep.Rewrites["sync."+to]++
			used = true
		}
		return true
	})
	return used
}
