#!/bin/bash
# try_patch.sh <patch.diff> <ID> [<ID>...]   — apply a patch to /repo, check it compiles and the
# pinned tests still pass, run the named checks (quick), and undo the patch. Development aid only.
set -u
P="$1"; shift
cd /repo || exit 2
if ! git diff --quiet; then echo "repo dirty"; exit 2; fi
git apply "$P" || { echo "patch does not apply"; exit 2; }
trap 'git -C /repo checkout -- . ; git -C /repo clean -fdq' EXIT
go build ./... || { echo "BUILD FAILS"; exit 2; }
go test -vet=off -count=1 -json ./... 2>/dev/null | python3 /verif/tools/cmp_baseline.py || echo "BASELINE TESTS CHANGED"
for id in "$@"; do
  out=$(VERIF_SEED=${VERIF_SEED:-1} /verif/check "$id" "${TIER:-quick}" 2>&1); rc=$?
  echo "== $id rc=$rc $(echo "$out" | grep -c '^VIOLATION') violation lines"
  echo "$out" | grep '^violation' | cut -c1-300 | head -4
  [ $rc -eq 2 ] && echo "$out" | tail -5
done
