#!/bin/bash
# verify_seed.sh <seed dir with patch.diff + demo.sh> — confirms, in a scratch worktree of /repo
# (never in /repo itself), that the change applies, builds, leaves the pinned tests unchanged, and
# that its demonstration passes without it and fails with it.
set -u
export GOFLAGS=-mod=mod GOPROXY=off GOSUMDB=off GOTOOLCHAIN=local
D="$(cd "$1" && pwd)"
W=$(mktemp -d /tmp/seedwt.XXXXXX); rmdir "$W"
git -C /repo worktree add -q --detach "$W" HEAD || exit 2
trap 'git -C /repo worktree remove --force "$W" 2>/dev/null; rm -rf "$W"' EXIT
( cd "$D" && timeout 600 bash ./demo.sh "$W" >/tmp/seed_demo_clean.log 2>&1 ); rc_clean=$?
( cd "$W" && git apply "$D/patch.diff" ) || { echo "RESULT apply=FAIL"; exit 1; }
( cd "$W" && go build ./... ) >/dev/null 2>&1; rc_build=$?
base=$(cd "$W" && go test -vet=off -count=1 -json ./... 2>/dev/null | python3 /verif/tools/cmp_baseline.py | tail -1)
( cd "$D" && timeout 600 bash ./demo.sh "$W" >/tmp/seed_demo_patched.log 2>&1 ); rc_patched=$?
echo "RESULT apply=ok build_rc=$rc_build tests='$base' demo_clean_rc=$rc_clean demo_patched_rc=$rc_patched"
