// Package verifsimrt is the simulated environment that the instrumented copy of
// Borno runs against. It is copied into the scratch copy of the repository by
// /verif/check; nothing here is ever committed to /repo.
//
// Every source of nondeterminism or environment interaction that the
// instrumented code touches lands here: the three standard streams, argv,
// the file system, the wall clock, process exit, map iteration order, the
// step counter, and the "unmodelled" sources (math/rand, pid, environment).
// A run is a pure function of (Config, instrumented code): nothing in this
// package reads a real clock, a real PRNG, a real file or a Go map in
// iteration order.
package verifsimrt

import (
	"os"
	"encoding/base64"
	"encoding/json"
	"errors"
	"fmt"
	"io"
	"io/fs"
	"log"
	"math/rand"
	"runtime"
	"runtime/debug"
	"sort"
	"sync"
	"syscall"
	"time"
	"unicode/utf8"
	"flag"
)

// ---------------------------------------------------------------- config

type File struct {
	Data []byte `json:"data,omitempty"`
	// Err is "", "ENOENT", "EACCES", "EISDIR" or "EIO".
	Err string `json:"err,omitempty"`
}

type Config struct {
	Args  []string        `json:"args"`
	Files map[string]File `json:"files,omitempty"`

	Stdin []byte `json:"stdin,omitempty"`
	// Chunks is the delivery script: the i-th Read returns at most Chunks[i]
	// bytes (0 = a zero-length read). After the list is used up ChunkDefault
	// applies: 0 = up to and including the next '\n' (a terminal), -1 =
	// everything that is left (a pipe written at once), n>0 = n bytes.
	Chunks       []int `json:"chunks,omitempty"`
	ChunkDefault int   `json:"chunk_default,omitempty"`
	// StdinErrAt >= 0: once that many bytes have been delivered the next Read
	// fails with EIO (every later one too if StdinErrSticky).
	StdinErrAt     int  `json:"stdin_err_at"`
	StdinErrSticky bool `json:"stdin_err_sticky,omitempty"`

	ClockStartMs int64   `json:"clock_start_ms"`
	ClockStepsMs []int64 `json:"clock_steps_ms,omitempty"` // applied after each read; default +1ms
	ClockNs      int64   `json:"clock_ns,omitempty"`       // sub-millisecond part, 0..999999
	ClockTickUs  int64   `json:"clock_tick_us,omitempty"`  // simulated microseconds that pass per executed step (0: time moves only with reads and sleeps)

	// Orders[i] decides the i-th dynamic range over a Go map: 0 identity
	// (canonically sorted keys), -1 reverse, d>0 the d-th permutation in
	// lexicographic order (mod n!). Beyond the end: identity.
	Orders []int `json:"orders,omitempty"`

	GCTicks []int `json:"gc_ticks,omitempty"` // runtime.GC() at these tick numbers (ascending)
	Ballast int   `json:"ballast,omitempty"`  // bytes allocated before the run to shift heap addresses

	// TZOffsetMin: the process's local time zone (time.Local) as minutes east of UTC.
	TZOffsetMin int `json:"tz_offset_min,omitempty"`

	// TTY: which of stdin/stdout/stderr look like a terminal (character device) to
	// Stat(): bit 0 stdin, bit 1 stdout, bit 2 stderr.
	TTY int `json:"tty,omitempty"`

	// HeapBias is added to the heap figures runtime.ReadMemStats reports (a machine
	// with more or less memory in use).
	HeapBias uint64 `json:"heap_bias,omitempty"`

	// GCOff: the Go collector runs only at GCTicks (heap growth never triggers it),
	// so which allocations may reuse which addresses is decided by the schedule.
	GCOff bool `json:"gc_off,omitempty"`

	Budget int `json:"budget"` // max ticks; 0 = DefaultBudget

	// Concurrency (only meaningful for a tree that starts goroutines or timers, see tasks.go):
	// SchedSeed seeds the PRNG that decides every interleaving, SchedQuantum is the average
	// number of steps a task runs before the schedule considers another; ReadDelayMs is the
	// simulated time that passes before every read of standard input (the user thinks).
	SchedSeed    int64 `json:"sched_seed,omitempty"`
	SchedQuantum int   `json:"sched_quantum,omitempty"`
	ReadDelayMs  int64 `json:"read_delay_ms,omitempty"`

	RandSeed int64             `json:"rand_seed,omitempty"`
	Pid      int               `json:"pid,omitempty"`
	Env      map[string]string `json:"env,omitempty"`
}

const DefaultBudget = 200000

// ---------------------------------------------------------------- history

type Event struct {
	Seq  int    `json:"seq"`
	Kind string `json:"kind"` // OUT ERR READ NOW ORDER BUILTIN EXIT PANIC BUDGET FILE SRC
	Data string `json:"data,omitempty"`
	N    int64  `json:"n,omitempty"`
	T    int64  `json:"t,omitempty"` // simulated wall clock (ms) when the event was recorded
}

// Events cross process boundaries as JSON (fresh-process runs, replay files);
// data that is not valid UTF-8 (a read cut inside a character) travels as base64.
type eventJSON struct {
	Seq  int    `json:"seq"`
	Kind string `json:"kind"`
	Data string `json:"data,omitempty"`
	B64  string `json:"data_b64,omitempty"`
	N    int64  `json:"n,omitempty"`
	T    int64  `json:"t,omitempty"`
}

func (e Event) MarshalJSON() ([]byte, error) {
	j := eventJSON{Seq: e.Seq, Kind: e.Kind, N: e.N, T: e.T}
	if utf8.ValidString(e.Data) {
		j.Data = e.Data
	} else {
		j.B64 = base64.StdEncoding.EncodeToString([]byte(e.Data))
	}
	return json.Marshal(j)
}

func (e *Event) UnmarshalJSON(b []byte) error {
	var j eventJSON
	if err := json.Unmarshal(b, &j); err != nil {
		return err
	}
	e.Seq, e.Kind, e.N, e.Data, e.T = j.Seq, j.Kind, j.N, j.Data, j.T
	if j.B64 != "" {
		d, err := base64.StdEncoding.DecodeString(j.B64)
		if err != nil {
			return err
		}
		e.Data = string(d)
	}
	return nil
}

type Result struct {
	Events   []Event `json:"events"`
	Exit     int     `json:"exit"`     // exit status (0 if Main returned)
	Returned bool    `json:"returned"` // Main returned normally instead of calling Exit
	Panic    string  `json:"panic,omitempty"`
	Budget   bool    `json:"budget,omitempty"`
	Ticks    int     `json:"ticks"`
	// OrdersUsed[i] = number of keys of the map seen by the i-th dynamic range.
	OrdersUsed []int `json:"orders_used,omitempty"`
	Reads      int   `json:"reads"`
	Switches   int   `json:"switches,omitempty"` // task switches decided by the schedule
	TimeJumps  int   `json:"time_jumps,omitempty"`
	TimersFired int  `json:"timers_fired,omitempty"`
}

// Tainted is set (and never cleared) when a run left something behind that the simulator
// cannot clean up; the harness treats it as its own failure.
var Tainted string

// ---------------------------------------------------------------- state

var (
	running                     bool
	exited, budgetHit, returned bool
	exitCode                    int
)

var (
	cfg       Config
	events    []Event
	ticks     int
	mainTicks int
	budget    int
	delivered int
	chunkIdx  int
	errFired  bool
	clockMs   int64
	clockIdx  int
	orderIdx  int
	ordersUse []int
	gcIdx     int
	reads     int
	ballast   []byte

	Args   []string
	Stdout = &OSFile{s: &Stream{kind: "OUT", name: "/dev/stdout", fd: 1}}
	Stderr = &OSFile{s: &Stream{kind: "ERR", name: "/dev/stderr", fd: 2}}
	Stdin  = &OSFile{i: &InStream{}}
	Rand   *rand.Rand

	resets []func()
)

// RegisterReset is called from the generated init() of every instrumented
// package; resets run in registration (= package initialisation) order.
func RegisterReset(f func()) { resets = append(resets, f) }

// mu guards the history. The simulator runs the program on one goroutine; if
// the code under test starts goroutines of its own (an unmodelled source, listed
// in the instrument report) their events at least do not corrupt the recorder.
var mu sync.Mutex

func record(kind, data string, n int64) {
	if dead && kind != "PANIC" {
		return // the run is over; tasks that are being ended leave no trace
	}
	activity++
	mu.Lock()
	events = append(events, Event{Seq: len(events), Kind: kind, Data: data, N: n, T: simMs()})
	mu.Unlock()
}

// Run executes main under cfg and returns the recorded history. It resets the
// package-level state of every instrumented package first, so consecutive
// runs in one process start the way a fresh process would.
func Run(c Config, main func()) (res Result) {
	cfg = c
	events = nil
	ticks = 0
	mainTicks = 0
	budget = c.Budget
	if budget <= 0 {
		budget = DefaultBudget
	}
	delivered, chunkIdx, errFired = 0, 0, false
	clockMs, clockIdx = c.ClockStartMs, 0
	orderIdx, ordersUse = 0, nil
	gcIdx = 0
	reads = 0
	Args = append([]string(nil), c.Args...)
	Rand = rand.New(rand.NewSource(c.RandSeed))
	ballast = nil
	if c.Ballast > 0 {
		ballast = make([]byte, c.Ballast)
	}
	// the process's time zone is part of the environment: set before package-level
	// state is (re)initialised, as it would be at process start
	resetTasks()
	taskPanic = ""
	// (the default flag set and usage function belong to the host process between runs)
	oldFlags, oldUsage := flag.CommandLine, flag.Usage
	defer func() { flag.CommandLine, flag.Usage = oldFlags, oldUsage }()
	resetFlags()
	oldLocal := time.Local
	time.Local = time.FixedZone(fmt.Sprintf("SIM%+d", c.TZOffsetMin), c.TZOffsetMin*60)
	defer func() { time.Local = oldLocal }()
	inSetup = true
	for _, f := range resets {
		f()
	}
	inSetup = false
	log.SetOutput(Stderr)
	log.SetFlags(0)
	if c.GCOff {
		runtime.GC()
		old := debug.SetGCPercent(-1)
		defer func() {
			debug.SetGCPercent(old)
			runtime.GC()
		}()
	}
	exited, exitCode, budgetHit, returned = false, 0, false, false
	// The program runs on its own goroutine so that Exit and the step budget can
	// end it with runtime.Goexit, which a recover() in the code under test cannot
	// swallow. The harness blocks until it is done: nothing runs concurrently.
	done := mainTask.exited
	go func() {
		defer close(done)
		defer func() {
			if r := recover(); r != nil {
				res.Panic = fmt.Sprint(r)
				record("PANIC", res.Panic, 0)
			}
		}()
		running = true
		main()
		returned = true
	}()
	<-done
	// the main task is gone: every other task of the program ends with it
	endRunFrom(mainTask)
	if Tainted == "" {
		taskWG.Wait()
	}
	running = false
	mu.Lock()
	defer mu.Unlock()
	if res.Panic == "" && taskPanic != "" {
		res.Panic = taskPanic
	}
	res.Switches = switches
	res.TimeJumps, res.TimersFired = nJumps, nFired
	res.Exit = exitCode
	res.Returned = returned
	res.Budget = budgetHit
	res.Events = events
	res.Ticks = ticks
	res.OrdersUsed = ordersUse
	res.Reads = reads
	runtime.KeepAlive(ballast)
	ballast = nil
	return
}

// ---------------------------------------------------------------- streams

type Stream struct {
	kind, name string
	fd         uintptr
}

func (s *Stream) Write(p []byte) (int, error) {
	if len(p) == 0 {
		return 0, nil // writing nothing is not output
	}
	if exited {
		// os.Exit does not run deferred functions and stops every goroutine; the simulated
		// exit unwinds them instead, so whatever they still write never happened
		return len(p), nil
	}
	record(s.kind, string(p), int64(len(p)))
	seamPoint()
	return len(p), nil
}
func (s *Stream) WriteString(p string) (int, error) {
	if len(p) == 0 {
		return 0, nil
	}
	if exited {
		return len(p), nil
	}
	record(s.kind, p, int64(len(p)))
	seamPoint()
	return len(p), nil
}
func (s *Stream) Sync() error  { return nil }

// Stat: a character device if the schedule says this stream is a terminal, else a pipe.
func (s *Stream) Stat() (fs.FileInfo, error) {
	record("SRC", "isatty:"+s.name, 0)
	mode := fs.ModeNamedPipe | 0o600
	if cfg.TTY&(1<<s.fd) != 0 {
		mode = fs.ModeDevice | fs.ModeCharDevice | 0o620
	}
	return simInfo{name: s.name, mode: mode}, nil
}
func (s *Stream) Close() error { return nil }
func (s *Stream) Fd() uintptr  { return s.fd }
func (s *Stream) Name() string { return s.name }

type InStream struct{}

func (*InStream) Fd() uintptr  { return 0 }
func (*InStream) Name() string { return "/dev/stdin" }
func (*InStream) Close() error { return nil }
func (*InStream) Stat() (fs.FileInfo, error) {
	record("SRC", "isatty:/dev/stdin", 0)
	mode := fs.ModeNamedPipe | 0o600
	if cfg.TTY&1 != 0 {
		mode = fs.ModeDevice | fs.ModeCharDevice | 0o620
	}
	return simInfo{name: "/dev/stdin", mode: mode}, nil
}

func (*InStream) Read(p []byte) (int, error) {
	if cfg.ReadDelayMs > 0 {
		sleepFor(cfg.ReadDelayMs)
	}
	reads++
	if cfg.StdinErrAt >= 0 && delivered >= cfg.StdinErrAt && (!errFired || cfg.StdinErrSticky) {
		errFired = true
		record("READ", "EIO", -2)
		return 0, &fs.PathError{Op: "read", Path: "/dev/stdin", Err: syscall.EIO}
	}
	if len(p) == 0 {
		record("READ", "", 0)
		return 0, nil
	}
	rest := cfg.Stdin[delivered:]
	if len(rest) == 0 {
		record("READ", "EOF", -1)
		return 0, io.EOF
	}
	var n int
	if chunkIdx < len(cfg.Chunks) {
		n = cfg.Chunks[chunkIdx]
		chunkIdx++
		if n < 0 {
			n = 0
		}
	} else {
		switch {
		case cfg.ChunkDefault == 0:
			n = len(rest)
			for i, b := range rest {
				if b == '\n' {
					n = i + 1
					break
				}
			}
		case cfg.ChunkDefault < 0:
			n = len(rest)
		default:
			n = cfg.ChunkDefault
		}
	}
	if n > len(rest) {
		n = len(rest)
	}
	if n > len(p) {
		n = len(p)
	}
	if cfg.StdinErrAt >= 0 && !errFired && delivered < cfg.StdinErrAt && delivered+n > cfg.StdinErrAt {
		n = cfg.StdinErrAt - delivered
	}
	copy(p, rest[:n])
	delivered += n
	record("READ", string(rest[:n]), int64(n))
	return n, nil
}

// ---------------------------------------------------------------- argv / exit / files

func Exit(code int) {
	record("EXIT", "", int64(code))
	exited, exitCode = true, code
	endRunFrom(cur)
	runtime.Goexit()
}

func fileErr(op, path, kind string) error {
	var e error
	switch kind {
	case "ENOENT":
		e = syscall.ENOENT
	case "EACCES":
		e = syscall.EACCES
	case "EISDIR":
		e = syscall.EISDIR
	default:
		e = syscall.EIO
	}
	return &fs.PathError{Op: op, Path: path, Err: e}
}

func ReadFile(path string) ([]byte, error) {
	record("FILE", path, 0)
	f, ok := cfg.Files[path]
	if !ok {
		return nil, fileErr("open", path, "ENOENT")
	}
	if f.Err != "" {
		op := "open"
		if f.Err == "EISDIR" || f.Err == "EIO" {
			op = "read"
		}
		return nil, fileErr(op, path, f.Err)
	}
	return append([]byte(nil), f.Data...), nil
}

// SimFile is what Open returns: enough of *os.File for read-only use.
type SimFile struct {
	path string
	data []byte
	off  int
	err  string
}

// OSFile stands for os.File in the code under test (the instrumenter rewrites the type name
// too, so that `func f(w *os.File)` keeps compiling): one of the three standard streams or a
// file opened for reading.
type OSFile struct {
	s *Stream
	i *InStream
	f *SimFile
	w *sinkFile
}

// sinkFile is a file opened for writing (a log, say): what is written to it is recorded as
// FWRITE events, never as output of the program.
type sinkFile struct{ path string }

func (o *OSFile) bad(op string) error {
	return &fs.PathError{Op: op, Path: o.Name(), Err: syscall.EBADF}
}
func (o *OSFile) Write(p []byte) (int, error) {
	if o.w != nil {
		record("FWRITE", o.w.path, int64(len(p)))
		return len(p), nil
	}
	if o.s == nil {
		return 0, o.bad("write")
	}
	return o.s.Write(p)
}
func (o *OSFile) WriteString(p string) (int, error) {
	if o.w != nil {
		record("FWRITE", o.w.path, int64(len(p)))
		return len(p), nil
	}
	if o.s == nil {
		return 0, o.bad("write")
	}
	return o.s.WriteString(p)
}
func (o *OSFile) Read(p []byte) (int, error) {
	switch {
	case o.i != nil:
		return o.i.Read(p)
	case o.f != nil:
		return o.f.Read(p)
	}
	return 0, o.bad("read")
}
func (o *OSFile) Close() error { return nil }
func (o *OSFile) Sync() error  { return nil }
func (o *OSFile) Stat() (fs.FileInfo, error) {
	switch {
	case o.w != nil:
		return simInfo{name: o.w.path}, nil
	case o.s != nil:
		return o.s.Stat()
	case o.i != nil:
		return o.i.Stat()
	}
	return o.f.Stat()
}
func (o *OSFile) Fd() uintptr {
	switch {
	case o.s != nil:
		return o.s.fd
	case o.i != nil:
		return 0
	}
	return 3
}
func (o *OSFile) Name() string {
	switch {
	case o.w != nil:
		return o.w.path
	case o.s != nil:
		return o.s.name
	case o.i != nil:
		return "/dev/stdin"
	}
	return o.f.path
}

// OpenFile / Create stand in for os.OpenFile / os.Create: read-only opens go to the simulated
// file system, anything else yields a write sink.
func OpenFile(path string, flag int, perm fs.FileMode) (*OSFile, error) {
	if flag&(os.O_WRONLY|os.O_RDWR|os.O_APPEND|os.O_CREATE|os.O_TRUNC) == 0 {
		return Open(path)
	}
	record("FILE", "write:"+path, 0)
	return &OSFile{w: &sinkFile{path: path}}, nil
}

func Create(path string) (*OSFile, error) {
	return OpenFile(path, os.O_RDWR|os.O_CREATE|os.O_TRUNC, 0o666)
}

func Open(path string) (*OSFile, error) {
	f, err := openSim(path)
	if err != nil {
		return nil, err
	}
	return &OSFile{f: f}, nil
}

func openSim(path string) (*SimFile, error) {
	record("FILE", path, 0)
	f, ok := cfg.Files[path]
	if !ok {
		return nil, fileErr("open", path, "ENOENT")
	}
	if f.Err == "ENOENT" || f.Err == "EACCES" {
		return nil, fileErr("open", path, f.Err)
	}
	return &SimFile{path: path, data: f.Data, err: f.Err}, nil
}

func (f *SimFile) Read(p []byte) (int, error) {
	if f.err != "" {
		return 0, fileErr("read", f.path, f.err)
	}
	if f.off >= len(f.data) {
		return 0, io.EOF
	}
	n := copy(p, f.data[f.off:])
	f.off += n
	return n, nil
}
func (f *SimFile) Close() error { return nil }
func (f *SimFile) Stat() (fs.FileInfo, error) {
	return simInfo{name: f.path, size: int64(len(f.data)), dir: f.err == "EISDIR"}, nil
}
func (f *SimFile) Name() string { return f.path }

// Stat / Lstat: enough of os.FileInfo for existence and kind checks. A file
// that exists but cannot be read (EACCES, EIO) stats fine, as on a real system.
type simInfo struct {
	name string
	size int64
	dir  bool
	mode fs.FileMode // if non-zero, overrides the default file / directory mode
}

func (i simInfo) Name() string { return i.name }
func (i simInfo) Size() int64  { return i.size }
func (i simInfo) Mode() fs.FileMode {
	if i.mode != 0 {
		return i.mode
	}
	if i.dir {
		return fs.ModeDir | 0o755
	}
	return 0o644
}
func (i simInfo) ModTime() time.Time { return time.Unix(0, 0).UTC() }
func (i simInfo) IsDir() bool        { return i.dir }
func (i simInfo) Sys() any           { return nil }

func Stat(path string) (fs.FileInfo, error) {
	record("FILE", "stat:"+path, 0)
	f, ok := cfg.Files[path]
	if !ok || f.Err == "ENOENT" {
		return nil, fileErr("stat", path, "ENOENT")
	}
	base := path
	for i := len(path) - 1; i >= 0; i-- {
		if path[i] == '/' {
			base = path[i+1:]
			break
		}
	}
	return simInfo{name: base, size: int64(len(f.Data)), dir: f.Err == "EISDIR"}, nil
}

func Lstat(path string) (fs.FileInfo, error) { return Stat(path) }

// ---------------------------------------------------------------- clock

// simMs: the simulated wall clock in milliseconds (reading it here moves nothing)
func simMs() int64 { return clockMs + int64(ticks)*cfg.ClockTickUs/1000 }

func Now() time.Time {
	ms := simMs()
	t := time.UnixMilli(ms).Add(time.Duration(cfg.ClockNs)).UTC()
	record("NOW", "", ms)
	step := int64(1)
	if clockIdx < len(cfg.ClockStepsMs) {
		step = cfg.ClockStepsMs[clockIdx]
		clockIdx++
	}
	clockMs += step
	if len(timers) > 0 {
		fireDue()
	}
	seamPoint()
	return t
}

func Since(t time.Time) time.Duration { return Now().Sub(t) }
func Until(t time.Time) time.Duration { return t.Sub(Now()) }
func Sleep(d time.Duration) {
	record("SLEEP", "", int64(d/time.Millisecond))
	sleepFor(int64(d / time.Millisecond))
}

// ---------------------------------------------------------------- steps

// Tick is inserted at the entry of every function and loop body.
func Tick() {
	if !running {
		return // package initialisers / resets run outside a simulated run
	}
	if dead {
		return // the run is over; this is a deferred call of a task that is being ended
	}
	ticks++
	activity++
	if len(tasks) > 1 || len(timers) > 0 {
		maybePreempt()
	}
	if gcIdx < len(cfg.GCTicks) && ticks >= cfg.GCTicks[gcIdx] {
		gcIdx++
		runtime.GC()
	}
	// the step budget bounds the MAIN task (the program's own progress); what goroutines of the
	// program do in the background while simulated time passes is bounded separately, generously
	if cur == mainTask {
		mainTicks++
	}
	if mainTicks > budget || ticks > 200*budget {
		if !budgetHit {
			budgetHit = true
			record("BUDGET", "", int64(ticks))
		}
		endRunFrom(cur)
		runtime.Goexit()
	}
}

// Builtin is inserted at the entry of the Call method of every Callable
// implementation other than the user-function type.
func Builtin(name string) { record("BUILTIN", name, 0) }

// ---------------------------------------------------------------- map order

type Pair[K comparable, V any] struct {
	K K
	V V
}

// Pairs replaces `range m` over a Go map: the keys are put in a canonical
// order (so nothing depends on the runtime's own randomisation) and then
// permuted by the schedule's decision for this dynamic range.
func Pairs[K comparable, V any](site string, m map[K]V) []Pair[K, V] {
	type ks struct {
		k K
		s string
	}
	keys := make([]ks, 0, len(m))
	for k := range m {
		keys = append(keys, ks{k, fmt.Sprintf("%v", k)})
	}
	sort.Slice(keys, func(i, j int) bool { return keys[i].s < keys[j].s })
	d := 0
	if orderIdx < len(cfg.Orders) {
		d = cfg.Orders[orderIdx]
	}
	orderIdx++
	ordersUse = append(ordersUse, len(keys))
	perm := permutation(len(keys), d)
	record("ORDER", site, int64(len(keys)))
	out := make([]Pair[K, V], len(keys))
	for i, p := range perm {
		out[i] = Pair[K, V]{keys[p].k, m[keys[p].k]}
	}
	return out
}

// permutation returns the d-th permutation of 0..n-1 (d = -1: reverse,
// d = 0: identity, d > 0: index in lexicographic order modulo n!; for n > 12
// a rotation by d).
func permutation(n, d int) []int {
	p := make([]int, n)
	for i := range p {
		p[i] = i
	}
	if n < 2 || d == 0 {
		return p
	}
	if d < 0 {
		for i := range p {
			p[i] = n - 1 - i
		}
		return p
	}
	if n > 12 {
		r := d % n
		for i := range p {
			p[i] = (i + r) % n
		}
		return p
	}
	fact := 1
	for i := 2; i <= n; i++ {
		fact *= i
	}
	d %= fact
	avail := append([]int(nil), p...)
	for i := 0; i < n; i++ {
		fact /= n - i
		idx := d / fact
		d %= fact
		p[i] = avail[idx]
		avail = append(avail[:idx], avail[idx+1:]...)
	}
	return p
}

// ---------------------------------------------------------------- unmodelled sources

// ReadMemStats: the real figures plus the schedule's bias.
func ReadMemStats(m *runtime.MemStats) {
	record("SRC", "memstats", 0)
	runtime.ReadMemStats(m)
	m.HeapAlloc += cfg.HeapBias
	m.Alloc += cfg.HeapBias
	m.HeapInuse += cfg.HeapBias
	m.Sys += cfg.HeapBias
	m.HeapSys += cfg.HeapBias
}

func Getpid() int {
	record("SRC", "pid", 0)
	return 1000 + cfg.Pid
}
func Getppid() int {
	record("SRC", "ppid", 0)
	return 500 + cfg.Pid
}
func Hostname() (string, error) {
	record("SRC", "hostname", 0)
	return fmt.Sprintf("host%d", cfg.Pid), nil
}
func Getenv(k string) string {
	record("SRC", "env", 0)
	return cfg.Env[k]
}
func LookupEnv(k string) (string, bool) {
	record("SRC", "env", 0)
	v, ok := cfg.Env[k]
	return v, ok
}
func Environ() []string {
	record("SRC", "env", 0)
	ks := make([]string, 0, len(cfg.Env))
	for k := range cfg.Env {
		ks = append(ks, k)
	}
	sort.Strings(ks)
	for i, k := range ks {
		ks[i] = k + "=" + cfg.Env[k]
	}
	return ks
}

var ErrUnsupported = errors.New("verifsimrt: unsupported")

// ---------------------------------------------------------------- package maps (iteration order is the schedule's)

// MapKeys / MapValues / MapAll stand in for maps.Keys / maps.Values / maps.All (which walk
// the map inside the standard library, where the range rewrite cannot reach). They return
// plain iterator functions, assignable to iter.Seq / iter.Seq2.
func MapKeys[K comparable, V any](site string, m map[K]V) func(yield func(K) bool) {
	return func(yield func(K) bool) {
		for _, p := range Pairs(site, m) {
			if !yield(p.K) {
				return
			}
		}
	}
}
func MapValues[K comparable, V any](site string, m map[K]V) func(yield func(V) bool) {
	return func(yield func(V) bool) {
		for _, p := range Pairs(site, m) {
			if !yield(p.V) {
				return
			}
		}
	}
}
func MapAll[K comparable, V any](site string, m map[K]V) func(yield func(K, V) bool) {
	return func(yield func(K, V) bool) {
		for _, p := range Pairs(site, m) {
			if !yield(p.K, p.V) {
				return
			}
		}
	}
}

// MapKeysSlice / MapValuesSlice stand in for golang.org/x/exp/maps.Keys / Values.
func MapKeysSlice[K comparable, V any](site string, m map[K]V) []K {
	out := make([]K, 0, len(m))
	for _, p := range Pairs(site, m) {
		out = append(out, p.K)
	}
	return out
}
func MapValuesSlice[K comparable, V any](site string, m map[K]V) []V {
	out := make([]V, 0, len(m))
	for _, p := range Pairs(site, m) {
		out = append(out, p.V)
	}
	return out
}

// ---------------------------------------------------------------- package flag

// FlagParse stands in for flag.Parse(): the default flag set parses the simulated command
// line, writes to the simulated stderr and ends the program through the simulated exit
// (status 0 for -h / -help, 2 for a bad flag), as flag.ExitOnError does.
func FlagParse() {
	fs := flag.CommandLine
	name := "borno"
	if len(Args) > 0 {
		name = Args[0]
	}
	fs.Init(name, flag.ContinueOnError)
	fs.SetOutput(Stderr)
	var rest []string
	if len(Args) > 1 {
		rest = Args[1:]
	}
	if err := fs.Parse(rest); err != nil {
		if err == flag.ErrHelp {
			Exit(0)
		}
		Exit(2)
	}
}

// resetFlags gives every run a fresh default flag set (flags are registered by package
// initialisers, which the per-run reset runs again).
func resetFlags() {
	name := "borno"
	if len(cfg.Args) > 0 {
		name = cfg.Args[0]
	}
	flag.CommandLine = flag.NewFlagSet(name, flag.ContinueOnError)
	flag.CommandLine.SetOutput(Stderr)
	flag.Usage = func() {
		fmt.Fprintf(Stderr, "Usage of %s:\n", name)
		flag.PrintDefaults()
	}
}
