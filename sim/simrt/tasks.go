package verifsimrt

import (
	"context"
	"fmt"
	"os"
	"reflect"
	"runtime"
	"sort"
	"sync"
	"time"
)

// Goroutines, timers and blocking operations of the code under test, under the
// simulator's control.
//
// The shipped tree starts no goroutine and uses no timer; this part is dormant
// for it (one task, no timers: every function here takes its first branch). It
// exists for trees that do: the instrumenter routes `go` statements, time.Tick /
// NewTicker / NewTimer / After / AfterFunc, channel operations, select and the
// blocking methods of sync.Mutex / RWMutex / WaitGroup / Once here.
//
// Model: every `go` statement creates a TASK, which is a real goroutine that
// runs only while it holds the baton; exactly one task holds it at any time.
// The baton moves (a) at Tick(), when the schedule says so — the schedule is a
// PRNG seeded by Config.SchedSeed with an average slice of Config.SchedQuantum
// steps, so one seed is one exact interleaving — and (b) when the running task
// cannot proceed (empty channel, held lock, sleep): it tries the operation
// without blocking, and if that fails hands the baton on and tries again when
// it gets it back. No task ever blocks inside the Go runtime, so the simulator
// always knows who can run. When nobody can, simulated time jumps to the next
// timer or wake-up (discrete-event time); if there is none, that is a deadlock
// and is reported as such.
//
// Simulated time otherwise passes as Config says: per reading of the clock, per
// executed step (ClockTickUs), per read of standard input (ReadDelayMs: the user
// thinks before typing), and in time.Sleep.

type task struct {
	id        int
	wake      chan struct{}
	idleEpoch int   // >= 0: could not proceed when the change counter stood here
	sleeping  bool
	until     int64 // sleeping: until this simulated time (ms; may be negative: the clock can stand before 1970)
	// rendezvous on an unbuffered channel
	waitCh   uintptr
	waitSend bool
	slot     interface{}
	slotOK   bool
	matched  bool
	roundEpoch int          // >= 0: the change counter when the current round of select tries began
	resumedAt int           // step counter when the task last got the baton
	exited    chan struct{} // closed when the task's goroutine has ended
}

type simTimer struct {
	at     int64 // ms
	period int64 // ms; 0 = one shot
	ch     chan time.Time
	fn     func()
	live   bool
	seq    int
}

var (
	tasks     []*task
	cur       *task
	mainTask  *task
	dead      bool
	epoch     int
	schedX    uint64
	nextSw    int
	taskWG    sync.WaitGroup
	timers    []*simTimer
	timerSeq  int
	taskSeq   int
	wgCount   map[*sync.WaitGroup]int
	onceState map[*sync.Once]int
	switches  int
	deadlock  bool
	inSetup   bool // Run is re-initialising the program's packages
	jumps     int  // time jumps since the main task last had a wake-up time
	nJumps    int  // time jumps in this run (reported, not recorded one by one: a 1 ms ticker and minutes of think time make millions)
	nFired    int  // timers fired in this run
	activity  int  // counts everything the running task does that the simulator sees (steps, events, operations begun)
)

var traceOn = os.Getenv("VERIF_TASKTRACE") != ""

func trace(format string, a ...interface{}) {
	if traceOn {
		fmt.Fprintf(os.Stderr, "[task %d ep %d t %d] ", cur.id, epoch, ticks)
		fmt.Fprintf(os.Stderr, format+"\n", a...)
	}
}

func resetTasks() {
	mainTask = &task{id: 0, wake: make(chan struct{}, 1), idleEpoch: -1, roundEpoch: -1, exited: make(chan struct{})}
	tasks = []*task{mainTask}
	cur = mainTask
	dead, deadlock = false, false
	epoch = 0
	schedX = uint64(cfg.SchedSeed)*0x9E3779B97F4A7C15 + 0xD1B54A32D192ED03
	nextSw = 0
	timers = nil
	timerSeq, taskSeq, switches, jumps, nJumps, nFired = 0, 0, 0, 0, 0, 0
	conds = nil
	wgCount = map[*sync.WaitGroup]int{}
	onceState = map[*sync.Once]int{}
}

func schedRand(n int) int {
	if n <= 1 {
		return 0
	}
	schedX ^= schedX << 13
	schedX ^= schedX >> 7
	schedX ^= schedX << 17
	return int((schedX >> 11) % uint64(n))
}

func quantum() int {
	if cfg.SchedQuantum > 0 {
		return cfg.SchedQuantum
	}
	return 50
}

// Go starts f as a task.
func Go(f func()) {
	activity++
	if dead || !(running || inSetup) {
		// the run is over, or this is the process's own package initialisation (which every
		// run repeats under the simulator): nothing starts
		return
	}
	taskSeq++
	t := &task{id: taskSeq, wake: make(chan struct{}, 1), idleEpoch: -1, roundEpoch: -1, exited: make(chan struct{})}
	tasks = append(tasks, t)
	epoch++
	record("GO", "", int64(t.id))
	taskWG.Add(1)
	go func() {
		defer taskWG.Done()
		defer close(t.exited)
		<-t.wake
		if dead {
			return
		}
		t.resumedAt = activity
		defer func() {
			if r := recover(); r != nil {
				// a panic in a goroutine kills a Go program
				record("PANIC", fmt.Sprint(r), int64(t.id))
				taskPanic = fmt.Sprintf("panic in a goroutine started by the program: %v", r)
				endRunFrom(t)
				return
			}
			if dead {
				return
			}
			removeTask(t)
			epoch++
			// hand the baton on: somebody is always left (the main task)
			next := pickNext(nil)
			if next == nil {
				next = advanceUntilRunnable(nil)
			}
			if next == nil {
				return // deadlock reported; everyone has been told to exit
			}
			cur = next
			next.wake <- struct{}{}
		}()
		f()
	}()
}

var taskPanic string

func removeTask(t *task) {
	for i, x := range tasks {
		if x == t {
			tasks = append(tasks[:i], tasks[i+1:]...)
			return
		}
	}
}

// canRetry: a blocked task has a reason to try again
func canRetry(t *task) bool {
	if t.sleeping {
		return simMs() >= t.until
	}
	return t.matched || t.idleEpoch != epoch
}

func runnable(t *task) bool { return t.idleEpoch < 0 || canRetry(t) }

// pickNext chooses, by the schedule, a runnable task other than except (nil: any).
func pickNext(except *task) *task {
	var c []*task
	for _, t := range tasks {
		if t != except && runnable(t) {
			c = append(c, t)
		}
	}
	if len(c) == 0 {
		return nil
	}
	return c[schedRand(len(c))]
}

// park gives the baton to next and waits to get it back.
func switchTo(next *task) {
	me := cur
	if next == me {
		return
	}
	switches++
	noteProgress(me)
	trace("switch to %d", next.id)
	cur = next
	next.wake <- struct{}{}
	<-me.wake
	if dead {
		runtime.Goexit()
	}
	me.resumedAt = activity
}

// noteProgress: a task that did anything the simulator saw since it got the baton (a step, an
// event, the start of another operation — retrying the same blocked operation is none of these)
// may have changed what
// others wait for by means the simulator does not see (close(ch), an atomic store, a plain
// variable): everybody blocked gets another try. A task that only retried its own blocked
// operation and failed has changed nothing — that is what keeps deadlocks detectable.
func noteProgress(t *task) {
	if activity != t.resumedAt {
		epoch++
		t.resumedAt = activity
	}
}

// seamPoint is called from every intercepted operation that touches the outside world (a
// write to a standard stream, a read of the clock or of standard input): with more than
// one task these are the places where an interleaving matters most, so the schedule may
// switch there regardless of the slice.
func seamPoint() {
	activity++
	if !running || dead || len(tasks) < 2 {
		return
	}
	if schedRand(3) == 0 {
		if next := pickNext(cur); next != nil {
			cur.idleEpoch = -1
			switchTo(next)
		}
	}
}

// maybePreempt is called from Tick.
func maybePreempt() {
	if len(timers) > 0 {
		fireDue()
	}
	if len(tasks) < 2 || ticks < nextSw {
		return
	}
	nextSw = ticks + 1 + schedRand(2*quantum())
	if next := pickNext(cur); next != nil {
		cur.idleEpoch = -1
		switchTo(next)
	}
}

// YieldBlocked is called by a task whose operation cannot proceed now. It returns when it is
// worth trying again.
func YieldBlocked() {
	if !running {
		return
	}
	if dead {
		runtime.Goexit()
	}
	me := cur
	before := epoch
	noteProgress(me) // (may move the counter: this task's own doings are news to the others, not to itself)
	me.idleEpoch = epoch
	if me.roundEpoch >= 0 {
		// the tries of a select were made a while ago (the task may have been preempted since):
		// whatever OTHERS changed after they began counts as news
		if me.roundEpoch != before {
			me.idleEpoch = me.roundEpoch
		}
		me.roundEpoch = -1
	}
	trace("blocked")
	for {
		if len(timers) > 0 {
			fireDue()
		}
		if canRetry(me) {
			me.idleEpoch = -1
			return
		}
		if next := pickNext(me); next != nil {
			switchTo(next)
			continue
		}
		// nobody can run: let simulated time jump
		if !advanceTime() {
			reportDeadlock()
		}
	}
}

// advanceUntilRunnable: used when a task ends and nobody is runnable.
func advanceUntilRunnable(except *task) *task {
	for {
		if next := pickNext(except); next != nil {
			return next
		}
		if !advanceTime() {
			reportDeadlockNoExit()
			return nil
		}
	}
}

// advanceTime moves the simulated clock to the next timer or wake-up. false: there is none.
func advanceTime() bool {
	now := simMs()
	var next int64
	found := false
	for _, tm := range timers {
		if tm.live && (!found || tm.at < next) {
			next, found = tm.at, true
		}
	}
	for _, t := range tasks {
		if t.sleeping && (!found || t.until < next) {
			next, found = t.until, true
		}
	}
	if !found {
		return false
	}
	if next > now {
		clockMs += next - now
		nJumps++
	}
	// a program in which nothing but timers ever happens again (the main task waits for
	// something that never comes while a ticker keeps ticking) would jump forever
	if mainTask != nil && mainTask.sleeping {
		jumps = 0 // the main task will wake up at a known time: these jumps lead somewhere
	} else {
		jumps++
	}
	if jumps > 100000 {
		if !budgetHit {
			budgetHit = true
			record("BUDGET", "time jumps", int64(jumps))
		}
		endRunFrom(cur)
		runtime.Goexit()
	}
	fireDue()
	epoch++
	return true
}

func reportDeadlock() {
	reportDeadlockNoExit()
	runtime.Goexit()
}

func reportDeadlockNoExit() {
	if traceOn {
		for _, t := range tasks {
			trace("deadlock: task %d idleEpoch %d sleeping %v until %d matched %v waitCh %x", t.id, t.idleEpoch, t.sleeping, t.until, t.matched, t.waitCh)
		}
	}
	if !deadlock {
		deadlock = true
		record("PANIC", "all goroutines are asleep - deadlock", 0)
		taskPanic = "fatal error: all goroutines are asleep - deadlock!"
	}
	endRunFrom(cur)
}

// endRunFrom ends the run from task t (which holds the baton, or nil: the harness after the
// main task ended): every other task is told to exit, ONE AT A TIME — each unwinds (its
// deferred calls run) before the next is woken, so nothing of the program ever runs in
// parallel. What they do while unwinding never happened (record drops it): in a real
// process they would simply have stopped.
func endRunFrom(t *task) {
	dead = true
	for _, x := range append([]*task(nil), tasks...) {
		if x == t {
			continue
		}
		select {
		case x.wake <- struct{}{}:
		default:
		}
		select {
		case <-x.exited:
		case <-time.After(30 * time.Second):
			Tainted = "a goroutine started by the program did not end with the run (blocked outside the simulator's control)"
			buf := make([]byte, 1<<16)
			buf = buf[:runtime.Stack(buf, true)]
			fmt.Fprintf(os.Stderr, "verifsimrt: goroutines at the end of the run:\n%s\n", buf)
			return
		}
	}
}

// Gosched stands in for runtime.Gosched(): let somebody else run, if anybody can.
func Gosched() {
	activity++
	if !running || dead || len(tasks) < 2 {
		return
	}
	if next := pickNext(cur); next != nil {
		cur.idleEpoch = -1
		switchTo(next)
	}
}

// ---------------------------------------------------------------- timers

func addTimer(d time.Duration, period time.Duration, ch chan time.Time, fn func()) *simTimer {
	if dead || !(running || inSetup) {
		return &simTimer{ch: ch}
	}
	timerSeq++
	ms := int64(d / time.Millisecond)
	if d > 0 && ms == 0 {
		ms = 1
	}
	pm := int64(period / time.Millisecond)
	if period > 0 && pm == 0 {
		pm = 1
	}
	tm := &simTimer{at: simMs() + ms, period: pm, ch: ch, fn: fn, live: true, seq: timerSeq}
	timers = append(timers, tm)
	record("TIMER", "", ms)
	return tm
}

func fireDue() {
	now := simMs()
	var due []*simTimer
	for _, tm := range timers {
		if tm.live && tm.at <= now {
			due = append(due, tm)
		}
	}
	if len(due) == 0 {
		return
	}
	sort.SliceStable(due, func(i, j int) bool {
		if due[i].at != due[j].at {
			return due[i].at < due[j].at
		}
		return due[i].seq < due[j].seq
	})
	for _, tm := range due {
		when := time.UnixMilli(tm.at).UTC()
		if tm.period > 0 {
			tm.at += ((now-tm.at)/tm.period + 1) * tm.period
		} else {
			tm.live = false
		}
		nFired++
		if tm.fn != nil {
			Go(tm.fn)
		} else {
			select {
			case tm.ch <- when:
			default: // a ticker drops ticks nobody has taken
			}
		}
	}
	live := timers[:0]
	for _, tm := range timers {
		if tm.live {
			live = append(live, tm)
		}
	}
	timers = live
	epoch++
}

type Ticker struct {
	C  <-chan time.Time
	tm *simTimer
}

func NewTicker(d time.Duration) *Ticker {
	if d <= 0 {
		panic("non-positive interval for NewTicker")
	}
	ch := make(chan time.Time, 1)
	return &Ticker{C: ch, tm: addTimer(d, d, ch, nil)}
}
func (t *Ticker) Stop() { t.tm.live = false }
func (t *Ticker) Reset(d time.Duration) {
	t.tm.live = false
	t.tm = addTimer(d, d, t.tm.ch, nil)
}
func TimeTick(d time.Duration) <-chan time.Time {
	if d <= 0 {
		return nil
	}
	return NewTicker(d).C
}

type Timer struct {
	C  <-chan time.Time
	tm *simTimer
}

func NewTimer(d time.Duration) *Timer {
	ch := make(chan time.Time, 1)
	return &Timer{C: ch, tm: addTimer(d, 0, ch, nil)}
}
func AfterFunc(d time.Duration, f func()) *Timer {
	return &Timer{tm: addTimer(d, 0, nil, f)}
}
func After(d time.Duration) <-chan time.Time { return NewTimer(d).C }
func (t *Timer) Stop() bool {
	was := t.tm.live
	t.tm.live = false
	return was
}
func (t *Timer) Reset(d time.Duration) bool {
	was := t.tm.live
	t.tm.live = false
	t.tm = addTimer(d, 0, t.tm.ch, t.tm.fn)
	return was
}

// sleepFor is time.Sleep and the think time before a read of standard input.
func sleepFor(ms int64) {
	activity++
	if ms <= 0 {
		return
	}
	if len(tasks) < 2 && len(timers) == 0 {
		clockMs += ms
		return
	}
	me := cur
	me.sleeping, me.until = true, simMs()+ms
	for simMs() < me.until {
		YieldBlocked()
		if dead {
			runtime.Goexit()
		}
	}
	me.sleeping = false
}

// ---------------------------------------------------------------- channels

func chanID(ch interface{}) uintptr { return reflect.ValueOf(ch).Pointer() }

// Recv2 is `v, ok := <-ch`.
func Recv2[T any](ch <-chan T) (T, bool) {
	activity++
	if ch == nil {
		for {
			YieldBlocked() // a receive from a nil channel blocks forever
			if !running {
				var z T
				return z, false
			}
		}
	}
	unbuffered := cap(ch) == 0
	id := chanID(ch)
	for {
		select {
		case v, ok := <-ch:
			epoch++
			return v, ok
		default:
		}
		if unbuffered {
			// a sender waiting on this channel?
			for _, t := range tasks {
				if t != cur && t.waitCh == id && t.waitSend && !t.matched {
					v := t.slot.(T)
					t.matched = true
					epoch++
					return v, true
				}
			}
			me := cur
			me.waitCh, me.waitSend, me.matched = id, false, false
			YieldBlocked()
			if me.matched {
				v := me.slot.(T)
				me.waitCh, me.matched, me.slot = 0, false, nil
				return v, true
			}
			me.waitCh = 0
			continue
		}
		YieldBlocked()
	}
}

func Recv[T any](ch <-chan T) T {
	v, _ := Recv2(ch)
	return v
}

// Send is `ch <- v`.
func Send[T any](ch chan<- T, v T) {
	activity++
	if ch == nil {
		for {
			YieldBlocked()
			if !running {
				return
			}
		}
	}
	unbuffered := cap(ch) == 0
	id := chanID(ch)
	for {
		if unbuffered {
			for _, t := range tasks {
				if t != cur && t.waitCh == id && !t.waitSend && !t.matched {
					t.slot, t.matched = v, true
					epoch++
					return
				}
			}
			// closed? a real non-blocking send on a closed channel panics, as it must
			sendClosedCheck(ch, v)
			me := cur
			me.waitCh, me.waitSend, me.matched, me.slot = id, true, false, v
			YieldBlocked()
			if me.matched {
				me.waitCh, me.matched, me.slot = 0, false, nil
				return
			}
			me.waitCh = 0
			continue
		}
		select {
		case ch <- v:
			epoch++
			return
		default:
		}
		YieldBlocked()
	}
}

func sendClosedCheck[T any](ch chan<- T, v T) {
	// cap 0 and no real receiver: this select never sends; it panics if the channel is closed
	select {
	case ch <- v:
		panic("verifsimrt: unexpected real receiver on an unbuffered channel")
	default:
	}
}

// ---------------------------------------------------------------- sync

// Every lock and unlock is a place where the schedule may switch (seamPoint): the windows
// between "checked under the read lock" and "written under the write lock", or between two
// critical sections, are where lost updates live.
func MutexLock(m *sync.Mutex) {
	seamPoint()
	for !m.TryLock() {
		YieldBlocked()
	}
}
func MutexUnlock(m *sync.Mutex) { m.Unlock(); epoch++; seamPoint() }
func RWLock(m *sync.RWMutex) {
	seamPoint()
	for !m.TryLock() {
		YieldBlocked()
	}
}
func RWUnlock(m *sync.RWMutex) { m.Unlock(); epoch++; seamPoint() }
func RWRLock(m *sync.RWMutex) {
	seamPoint()
	for !m.TryRLock() {
		YieldBlocked()
	}
}
func RWRUnlock(m *sync.RWMutex) { m.RUnlock(); epoch++; seamPoint() }

func WGAdd(wg *sync.WaitGroup, n int) { wgCount[wg] += n; epoch++; activity++ }
func WGDone(wg *sync.WaitGroup)       { wgCount[wg]--; epoch++; activity++ }
func WGWait(wg *sync.WaitGroup) {
	activity++
	for wgCount[wg] > 0 {
		YieldBlocked()
	}
}

func OnceDo(o *sync.Once, f func()) {
	activity++
	for {
		switch onceState[o] {
		case 2:
			return
		case 0:
			onceState[o] = 1
			defer func() { onceState[o] = 2; epoch++ }()
			f()
			return
		default:
			YieldBlocked()
		}
	}
}

// ---------------------------------------------------------------- select (see the instrumenter's rewriteSelect)

// SelectOrder returns the clause positions in the order in which their communications are
// tried: a permutation chosen by the schedule (Go chooses among the ready ones at random).
func SelectOrder(idx ...int) []int {
	activity++
	if running && cur != nil {
		cur.roundEpoch = epoch
	}
	out := append([]int(nil), idx...)
	for i := len(out) - 1; i > 0; i-- {
		j := schedRand(i + 1)
		out[i], out[j] = out[j], out[i]
	}
	return out
}

// TryRecv receives without blocking: (value, ok as in `v, ok := <-ch`, whether anything was received).
func TryRecv[T any](ch <-chan T) (v T, ok bool, got bool) {
	if ch == nil {
		return
	}
	select {
	case v, ok = <-ch:
		epoch++
		return v, ok, true
	default:
	}
	if cap(ch) == 0 {
		id := chanID(ch)
		for _, t := range tasks {
			if t != cur && t.waitCh == id && t.waitSend && !t.matched {
				v = t.slot.(T)
				t.matched = true
				epoch++
				return v, true, true
			}
		}
	}
	return
}

// TrySend sends without blocking.
func TrySend[T any](ch chan<- T, v T) bool {
	if ch == nil {
		return false
	}
	if cap(ch) == 0 {
		id := chanID(ch)
		for _, t := range tasks {
			if t != cur && t.waitCh == id && !t.waitSend && !t.matched {
				t.slot, t.matched = v, true
				epoch++
				return true
			}
		}
		sendClosedCheck(ch, v)
		return false
	}
	select {
	case ch <- v:
		epoch++
		return true
	default:
		return false
	}
}

func ZeroOf[T any](ch <-chan T) (z T) { return }

// SendVal gives the value of a send clause the channel's element type (it is evaluated once,
// when the select is entered).
func SendVal[T any](ch chan<- T, v T) T { return v }

// ---------------------------------------------------------------- sync.Cond

type condState struct {
	waiters []*task
}

var conds map[*sync.Cond]*condState

func condOf(c *sync.Cond) *condState {
	if conds == nil {
		conds = map[*sync.Cond]*condState{}
	}
	s := conds[c]
	if s == nil {
		s = &condState{}
		conds[c] = s
	}
	return s
}

func lockLocker(l sync.Locker) {
	switch m := l.(type) {
	case *sync.Mutex:
		MutexLock(m)
	case *sync.RWMutex:
		RWLock(m)
	default:
		l.Lock() // a Locker of the program's own: its Lock method is instrumented code
	}
}

// CondWait is c.Wait(): unlock, wait to be signalled (first come, first served), lock again.
func CondWait(c *sync.Cond) {
	activity++
	s := condOf(c)
	me := cur
	s.waiters = append(s.waiters, me)
	c.L.Unlock()
	epoch++
	for {
		waiting := false
		for _, w := range s.waiters {
			if w == me {
				waiting = true
			}
		}
		if !waiting {
			break
		}
		YieldBlocked()
	}
	lockLocker(c.L)
}

func CondSignal(c *sync.Cond) {
	activity++
	s := condOf(c)
	if len(s.waiters) > 0 {
		s.waiters = s.waiters[1:]
		epoch++
	}
}

func CondBroadcast(c *sync.Cond) {
	activity++
	s := condOf(c)
	if len(s.waiters) > 0 {
		s.waiters = nil
		epoch++
	}
}

// ---------------------------------------------------------------- context deadlines

type deadlineCtx struct {
	context.Context
	deadline time.Time
}

func (c deadlineCtx) Deadline() (time.Time, bool) { return c.deadline, true }
func (c deadlineCtx) Err() error {
	if e := c.Context.Err(); e != nil {
		if context.Cause(c.Context) == context.DeadlineExceeded {
			return context.DeadlineExceeded
		}
		return e
	}
	return nil
}

// CtxWithTimeout / CtxWithDeadline stand in for context.WithTimeout / WithDeadline: the expiry
// is a simulated timer. (context.WithCancel needs no stand-in: it starts no goroutine and no timer.)
func CtxWithTimeout(parent context.Context, d time.Duration) (context.Context, context.CancelFunc) {
	inner, cancel := context.WithCancelCause(parent)
	if pd, ok := parent.Deadline(); ok && pd.Before(time.UnixMilli(simMs()).Add(d)) {
		// the parent expires first: it will cancel us
		return deadlineCtx{inner, pd}, func() { cancel(context.Canceled) }
	}
	tm := addTimer(d, 0, nil, func() { cancel(context.DeadlineExceeded); epoch++ })
	return deadlineCtx{inner, time.UnixMilli(simMs()).Add(d).UTC()}, func() {
		tm.live = false
		cancel(context.Canceled)
		epoch++
	}
}

func CtxWithDeadline(parent context.Context, t time.Time) (context.Context, context.CancelFunc) {
	return CtxWithTimeout(parent, t.Sub(time.UnixMilli(simMs())))
}

// CtxAfterFunc stands in for context.AfterFunc: f runs as a task once ctx is done.
func CtxAfterFunc(ctx context.Context, f func()) (stop func() bool) {
	stopped, started := false, false
	Go(func() {
		for {
			if stopped {
				return
			}
			if _, _, got := TryRecv(ctx.Done()); got {
				break
			}
			YieldBlocked()
		}
		started = true
		f()
	})
	return func() bool {
		if started || stopped {
			return false
		}
		stopped = true
		epoch++
		return true
	}
}

// ---------------------------------------------------------------- sync.Map

// SyncMapRange is (*sync.Map).Range with the visiting order decided by the schedule.
func SyncMapRange(m *sync.Map, f func(key, value any) bool) {
	tmp := map[string][2]any{}
	m.Range(func(k, v any) bool {
		tmp[fmt.Sprintf("%T:%v", k, k)] = [2]any{k, v}
		return true
	})
	for _, p := range Pairs("sync.Map.Range", tmp) {
		if !f(p.V[0], p.V[1]) {
			return
		}
	}
}
