package main

import (
	"bytes"
	"context"
	"crypto/sha256"
	"encoding/hex"
	"encoding/json"
	"fmt"
	"hash/fnv"
	"io"
	"os"
	"os/exec"
	"path/filepath"
	"regexp"
	"sort"
	"strings"
	"time"

	bornocli "github.com/ah-naf/borno/verifcli"
	sim "github.com/ah-naf/borno/verifsimrt"
)

// ---------------------------------------------------------------- choice source

// Src is the only source of choices for generated workloads and schedules.
// In exploration it is backed by pgregory.net/rapid (so every draw shrinks);
// in systematic sweeps by fixed loops.
type Src interface {
	Int(label string, lo, hi int) int // inclusive bounds
}

func Bool(s Src, label string) bool { return s.Int(label, 0, 1) == 1 }
func Pick[T any](s Src, label string, xs []T) T {
	return xs[s.Int(label, 0, len(xs)-1)]
}

// Chance is true with probability about num/den (den draws shrink towards false).
func Chance(s Src, label string, num, den int) bool {
	return s.Int(label, 0, den-1) >= den-num
}

// recSrc records the choices another source makes, so that a generated case can
// be re-generated from (and minimised over) its vector of draws.
type recSrc struct {
	inner Src
	vals  []int
}

func (r *recSrc) Int(label string, lo, hi int) int {
	v := r.inner.Int(label, lo, hi)
	r.vals = append(r.vals, v)
	return v
}

// generated builds a case through a recording source and remembers how to rebuild it.
func generated(inner Src, gen func(Src) *Case) *Case {
	rec := &recSrc{inner: inner}
	cs := gen(rec)
	cs.draws = rec.vals
	cs.regen = gen
	return cs
}

// fixedSrc replays a recorded list of choices (0 beyond the end / clamps).
type fixedSrc struct {
	vals []int
	i    int
}

func (f *fixedSrc) Int(label string, lo, hi int) int {
	v := lo
	if f.i < len(f.vals) {
		v = f.vals[f.i]
	}
	f.i++
	if v < lo {
		v = lo
	}
	if v > hi {
		v = hi
	}
	return v
}

// ---------------------------------------------------------------- cases

// Run is one execution of the whole CLI under one schedule.
type Run struct {
	Role string     `json:"role"` // free text: "neutral", "sched3", "twin", "fresh:line2", ...
	Cfg  sim.Config `json:"cfg"`
}

// Case is one workload together with every schedule it is run under and the
// by-construction expectation its oracle needs. It is self-contained: the
// replay file is a Case, and evaluating it needs no generator.
type Case struct {
	Prop    string `json:"prop"`
	Kind    string `json:"kind"`              // scenario family within the property
	Sig     string `json:"sig"`               // construct signature (known-finding matching, distinctness)
	Program string `json:"program,omitempty"` // program text (also present in Cfg.Files)
	Runs    []Run  `json:"runs"`

	// expectations (property specific; unused fields stay empty)
	ExpectStdout   *string  `json:"expect_stdout,omitempty"`
	ExpectExit     *int     `json:"expect_exit,omitempty"`
	ExpectErrLine  int      `json:"expect_err_line,omitempty"` // >0: first diagnostic must name this line
	ExpectNoRun    bool     `json:"expect_no_run,omitempty"`   // no OUT/READ/BUILTIN events at all
	ExpectStderr   string   `json:"expect_stderr,omitempty"`   // "empty" | "nonempty" | ""
	StripTokens    []string `json:"strip_tokens,omitempty"`    // tokens removed from stdout before comparison
	Notes          []string `json:"notes,omitempty"`
	Aux            *Aux     `json:"aux,omitempty"`
	FaultKind      string   `json:"fault_kind,omitempty"`
	FaultContext   string   `json:"fault_context,omitempty"`
	RelaxedFault   string   `json:"relaxed_fault,omitempty"` // "eof" | "eio": env-injected fault, conditional oracle
	MaskClockLines bool     `json:"mask_clock_lines,omitempty"`
	// AllFresh: every run in an OS process of its own (set by the crash triage: the case
	// killed a worker, so whether it kills the interpreter is settled as in execFresh)
	AllFresh bool `json:"all_fresh,omitempty"`

	// not serialised: how to rebuild this case from a vector of draws (minimisation)
	draws []int
	regen func(Src) *Case
}

// Aux carries the larger property-specific expectation payloads.
type Aux struct {
	C06 *C06Expect `json:"c06,omitempty"`
	// C12: expected stdout blocks per step, see c12.go
	C12 *C12Expect `json:"c12,omitempty"`
	// C20: session lines and their classes
	C20 *C20Expect `json:"c20,omitempty"`
	C17 *C17Expect `json:"c17,omitempty"`
	// C13: tags that must appear in source order
	C13 *C13Expect `json:"c13,omitempty"`
	// C19 input scenario
	C19 *C19Expect `json:"c19,omitempty"`
}

type Violation struct {
	Prop  string `json:"prop"`
	Class string `json:"class"` // short stable string, e.g. C06/out-after-err
	Sig   string `json:"sig"`   // construct signature
	Msg   string `json:"msg"`
	Run   int    `json:"run"` // index into Case.Runs, -1 if cross-run
}

func (v Violation) Key() string { return v.Class + " " + v.Sig }

// ---------------------------------------------------------------- executing

// Exec runs the instrumented CLI once under cfg, in this process.
func Exec(cfg sim.Config) sim.Result {
	r := sim.Run(cfg, bornocli.Main)
	if sim.Tainted != "" {
		dumpCfg(cfg)
		fatal2("simulator: %s", sim.Tainted)
	}
	return r
}

type Obs struct {
	Res      sim.Result
	Stdout   string
	Stderr   string
	FirstErr int // seq of first ERR event, -1 if none
}

func Observe(r sim.Result) Obs {
	o := Obs{Res: r, FirstErr: -1}
	var so, se strings.Builder
	for _, e := range r.Events {
		switch e.Kind {
		case "OUT":
			so.WriteString(e.Data)
		case "ERR":
			if o.FirstErr < 0 {
				o.FirstErr = e.Seq
			}
			se.WriteString(e.Data)
		}
	}
	o.Stdout, o.Stderr = so.String(), se.String()
	return o
}

// ExitStatus is the status a real process would end with.
func (o Obs) ExitStatus() int {
	if o.Res.Panic != "" {
		return 2
	}
	if o.Res.Budget {
		return -1
	}
	return o.Res.Exit
}

// FirstDiagnostic is stderr up to and including the first "[line N]".
var ansiRE = regexp.MustCompile("\x1b\\[[0-9;]*[A-Za-z]")

func FirstDiagnostic(stderr string) (text string, line int, ok bool) {
	stderr = ansiRE.ReplaceAllString(stderr, "") // colours (a terminal was detected) do not change what is named
	i := strings.Index(stderr, "[line ")
	if i < 0 {
		return stderr, 0, false
	}
	j := strings.Index(stderr[i:], "]")
	if j < 0 {
		return stderr, 0, false
	}
	// the text of the diagnostic: everything up to the end of the line that holds "[line N]"
	// (run-time diagnostics put the message before it, front-end ones after it)
	end := i + j + 1
	if nl := strings.Index(stderr[end:], "\n"); nl >= 0 {
		end += nl
	} else {
		end = len(stderr)
	}
	full := stderr[:end]
	n := 0
	neg := false
	for _, c := range stderr[i+6 : i+j] {
		if c == '-' {
			neg = true
			continue
		}
		if c < '0' || c > '9' {
			return full, 0, false
		}
		n = n*10 + int(c-'0')
	}
	if neg {
		n = -n
	}
	return full, n, true
}

func digestResults(rs []sim.Result) string {
	h := sha256.New()
	for _, r := range rs {
		for _, e := range r.Events {
			fmt.Fprintf(h, "%s|%q|%d|%d\n", e.Kind, e.Data, e.N, e.T)
		}
		fmt.Fprintf(h, "exit=%d ret=%v panic=%q budget=%v ticks=%d sw=%d j=%d f=%d\n", r.Exit, r.Returned, r.Panic, r.Budget, r.Ticks, r.Switches, r.TimeJumps, r.TimersFired)
	}
	return hex.EncodeToString(h.Sum(nil))[:32]
}

// shape is the sequence of event kinds with runs collapsed: a cheap measure
// of "distinct history shapes".
func shape(r sim.Result) string {
	var b strings.Builder
	last := ""
	for _, e := range r.Events {
		k := e.Kind
		if e.Kind == "READ" && e.N < 0 {
			k = "READ:" + e.Data
		}
		if k != last {
			b.WriteString(k)
			b.WriteByte(' ')
			last = k
		}
	}
	fmt.Fprintf(&b, "x%d", r.Exit)
	if r.Panic != "" {
		b.WriteString(" PANIC")
	}
	if r.Budget {
		b.WriteString(" BUDGET")
	}
	return b.String()
}

func hash64(s string) uint64 {
	h := fnv.New64a()
	h.Write([]byte(s))
	return h.Sum64()
}

// ---------------------------------------------------------------- statistics

type Stats struct {
	Cases      int64               `json:"cases"`
	Runs       int64               `json:"runs"`
	Ticks      int64               `json:"ticks"`
	Counters   map[string]int64    `json:"counters"`
	Distinct   map[string][]uint64 `json:"distinct"` // name -> set of hashes (merged by the driver)
	ClockMinMs int64               `json:"clock_min_ms"`
	ClockMaxMs int64               `json:"clock_max_ms"`
	ClockSpan  int64               `json:"clock_span_ms"` // sum over runs of |last-first| simulated ms
	Samples    []json.RawMessage   `json:"samples"`
	sets       map[string]map[uint64]struct{}
}

func NewStats() *Stats {
	return &Stats{Counters: map[string]int64{}, sets: map[string]map[uint64]struct{}{}, ClockMinMs: 1 << 62, ClockMaxMs: -(1 << 62)}
}

func (s *Stats) Count(name string, n int64) { s.Counters[name] += n }
func (s *Stats) Seen(set, key string) {
	m := s.sets[set]
	if m == nil {
		m = map[uint64]struct{}{}
		s.sets[set] = m
	}
	m[hash64(key)] = struct{}{}
}
func (s *Stats) Sample(v interface{}, max int) {
	if len(s.Samples) >= max {
		return
	}
	b, _ := json.Marshal(v)
	s.Samples = append(s.Samples, b)
}

// ObserveRun accumulates the generic per-run measurements.
func (s *Stats) ObserveRun(cfg sim.Config, r sim.Result) {
	s.Runs++
	s.Ticks += int64(r.Ticks)
	s.Seen("history_shapes", shape(r))
	var firstNow, lastNow int64
	nNow := 0
	multi, inside := false, false
	for _, e := range r.Events {
		switch e.Kind {
		case "NOW":
			if nNow == 0 {
				firstNow = e.N
			}
			lastNow = e.N
			nNow++
			if e.N < s.ClockMinMs {
				s.ClockMinMs = e.N
			}
			if e.N > s.ClockMaxMs {
				s.ClockMaxMs = e.N
			}
		case "READ":
			switch {
			case e.N == -1:
				s.Count("fault.stdin_eof_reads", 1)
			case e.N == -2:
				s.Count("fault.stdin_eio", 1)
			case e.N == 0:
				s.Count("fault.stdin_zero_length_read", 1)
			default:
				nl := strings.Count(e.Data, "\n")
				if nl > 1 || (nl == 1 && !strings.HasSuffix(e.Data, "\n")) {
					multi = true
				}
				if !strings.HasSuffix(e.Data, "\n") {
					inside = true
				}
				if !validUTF8Boundary(e.Data) {
					s.Count("reach.read_ended_inside_rune", 1)
				}
			}
		case "PANIC":
			s.Count("host_panics", 1)
		case "GO":
			s.Count("sched.goroutines_started_by_the_program", 1)
		case "BUDGET":
			s.Count("budget_exceeded", 1)
		}
	}
	if r.TimersFired > 0 {
		s.Count("sched.timers_fired", int64(r.TimersFired))
	}
	if r.TimeJumps > 0 {
		s.Count("sched.time_jumps_while_every_task_waited", int64(r.TimeJumps))
	}
	if r.Switches > 0 {
		s.Count("sched.task_switches", int64(r.Switches))
		s.Seen("interleavings", fmt.Sprintf("%d/%d/%s", cfg.SchedSeed, cfg.SchedQuantum, shape(r)))
	}
	if multi {
		s.Count("reach.read_returned_more_than_one_line", 1)
	}
	if inside {
		s.Count("reach.read_ended_inside_line", 1)
	}
	if nNow > 0 {
		d := lastNow - firstNow
		if d < 0 {
			d = -d
			s.Count("fault.clock_backward_span", 1)
		}
		s.ClockSpan += d
	}
	nonId := false
	for i, n := range r.OrdersUsed {
		if n >= 2 {
			s.Count("sched.ranges_over_2plus_keys", 1)
			d := 0
			if i < len(cfg.Orders) {
				d = cfg.Orders[i]
			}
			if d != 0 {
				nonId = true
				s.Count("fault.map_order_non_identity", 1)
			}
		}
	}
	if nonId {
		var b strings.Builder
		for i, n := range r.OrdersUsed {
			d := 0
			if i < len(cfg.Orders) {
				d = cfg.Orders[i]
			}
			if n >= 2 {
				fmt.Fprintf(&b, "%d:%d,", n, d)
			} else {
				b.WriteString("-,")
			}
		}
		s.Seen("order_vectors_nontrivial", b.String())
	}
	if len(cfg.GCTicks) > 0 {
		s.Count("fault.gc_points_scheduled", int64(len(cfg.GCTicks)))
	}
	if cfg.Ballast > 0 {
		s.Count("fault.heap_ballast_runs", 1)
	}
}

func validUTF8Boundary(s string) bool {
	// true if s does not end in the middle of a UTF-8 sequence
	n := len(s)
	for i := 1; i <= 4 && i <= n; i++ {
		c := s[n-i]
		if c&0xC0 == 0x80 {
			continue
		}
		need := 1
		switch {
		case c&0xE0 == 0xC0:
			need = 2
		case c&0xF0 == 0xE0:
			need = 3
		case c&0xF8 == 0xF0:
			need = 4
		}
		return need == i
	}
	return true
}

func (s *Stats) Finish() {
	s.Distinct = map[string][]uint64{}
	for k, m := range s.sets {
		l := make([]uint64, 0, len(m))
		for h := range m {
			l = append(l, h)
		}
		sort.Slice(l, func(i, j int) bool { return l[i] < l[j] })
		s.Distinct[k] = l
	}
}

func (s *Stats) Merge(o *Stats) {
	s.Cases += o.Cases
	s.Runs += o.Runs
	s.Ticks += o.Ticks
	s.ClockSpan += o.ClockSpan
	if o.ClockMinMs < s.ClockMinMs {
		s.ClockMinMs = o.ClockMinMs
	}
	if o.ClockMaxMs > s.ClockMaxMs {
		s.ClockMaxMs = o.ClockMaxMs
	}
	for k, v := range o.Counters {
		s.Counters[k] += v
	}
	for k, l := range o.Distinct {
		m := s.sets[k]
		if m == nil {
			m = map[uint64]struct{}{}
			s.sets[k] = m
		}
		for _, h := range l {
			m[h] = struct{}{}
		}
	}
	for _, x := range o.Samples {
		if len(s.Samples) < 12 {
			s.Samples = append(s.Samples, x)
		}
	}
}

func (s *Stats) DistinctCount(set string) int { return len(s.sets[set]) }

// ---------------------------------------------------------------- property registry

type EvalCtx struct {
	Stats *Stats
	// Results of every run of the case being evaluated (filled by RunAll).
	Results []sim.Result
}

func (c *EvalCtx) RunAll(cs *Case) []Obs {
	obs := make([]Obs, len(cs.Runs))
	c.Results = c.Results[:0]
	for i, r := range cs.Runs {
		var res sim.Result
		if cs.AllFresh || strings.HasPrefix(r.Role, "fresh-process") {
			res = execFresh(cs.Prop, r.Cfg)
		} else {
			res = Exec(r.Cfg)
		}
		c.Results = append(c.Results, res)
		obs[i] = Observe(res)
		if c.Stats != nil {
			c.Stats.ObserveRun(r.Cfg, res)
		}
	}
	return obs
}

type Property struct {
	ID    string
	Level string // exploration | fault_enumeration
	// Systematic returns the enumerated part of the workload (same for every seed).
	Systematic func(tier string) []*Case
	// Random draws one case; called under rapid.
	Random func(s Src, tier string) *Case
	// RandomCount is the number of random cases per tier (whole check, all workers).
	RandomCount func(tier string) int
	// Eval runs every schedule of the case and applies the oracle.
	Eval func(cs *Case, ctx *EvalCtx) []Violation
	// Rule / measure text for the evidence file.
	Rule         string
	DistinctSet  string // name of the Stats set reported as distinct_nontrivial
	Assumptions  []string
	Components   map[string]string // real vs stub
	ReachTargets []string          // counters that should be > 0 in the thorough tier
	PrunableRuns bool              // Runs[1:] are independent schedules of one workload: minimisation may drop them
}

var properties = map[string]*Property{}

func register(p *Property) { properties[p.ID] = p }

func ptrS(s string) *string { return &s }
func ptrI(i int) *int       { return &i }

// execFresh runs one configuration in a fresh OS process of this binary.
//
// The one fault the simulator cannot contain is a Go runtime fatal error (the
// goroutine stack ceiling): it kills the process, instrumented or not. The
// instrumented build has larger frames than the shipped one (a Tick call in
// every function and loop), so it reaches the ceiling earlier. Whether a
// configuration "kills the interpreter" is therefore settled by the plain
// build of the same tree, run as a real process over real pipes:
//   - child died, plain build dies too        -> the death is reported;
//   - child died, plain build survives        -> an artefact of the larger frames: the child is
//     run again with twice the stack ceiling to obtain the simulated history
//     (still dying is harness trouble, exit 2);
//   - child survived, plain build dies (only asked where death is what the property
//     judges: C06, C19, C20)                   -> the death is reported.
//
// Configurations with an injected stdin error have no real-process twin; for them the
// child's fate stands.
func execFresh(prop string, cfg sim.Config) sim.Result {
	res, died := execChild(cfg, false)
	plainOK := cfg.StdinErrAt < 0 && os.Getenv("BORNO_PLAIN_BIN") != ""
	if died != "" {
		if plainOK {
			if pd, known := plainDies(cfg); known && pd == "" {
				res2, died2 := execChild(cfg, true)
				if died2 != "" {
					dumpCfg(cfg)
					fatal2("the instrumented build dies (%s) where the plain build of the same tree survives, even with twice the stack ceiling", died2)
				}
				return res2
			}
		}
		return sim.Result{Panic: "fresh process died: " + died, Events: []sim.Event{{Kind: "PANIC", Data: "fresh process died"}}}
	}
	if plainOK && (prop == "C06" || prop == "C19" || prop == "C20") {
		if pd, known := plainDies(cfg); known && pd != "" {
			return sim.Result{Panic: "fresh process died: plain build: " + pd, Events: []sim.Event{{Kind: "PANIC", Data: "fresh process died"}}}
		}
	}
	return res
}

func execChild(cfg sim.Config, bigStack bool) (sim.Result, string) {
	self, err := os.Executable()
	if err != nil {
		fatal2("execFresh: %v", err)
	}
	b, _ := json.Marshal(cfg)
	cmd := exec.Command(self, "one")
	if bigStack {
		cmd.Env = append(os.Environ(), "VERIF_STACK_X2=1")
	}
	cmd.Stdin = bytes.NewReader(b)
	out, err := cmd.Output()
	if err != nil {
		// the child died (Go fatal error)
		return sim.Result{}, err.Error()
	}
	var r sim.Result
	if err := json.Unmarshal(out, &r); err != nil {
		fatal2("execFresh: %v", err)
	}
	return r, ""
}

// plainDies runs the plain build on the configuration's files, arguments and stdin.
// It returns how the process died ("" if it exited by itself) and whether the answer is
// known (false on a timeout or when the process could not be started).
func plainDies(cfg sim.Config) (string, bool) {
	bin := os.Getenv("BORNO_PLAIN_BIN")
	dir, err := os.MkdirTemp("", "bornosim-plain-")
	if err != nil {
		return "", false
	}
	defer os.RemoveAll(dir)
	for name, f := range cfg.Files {
		if strings.Contains(name, "..") || filepath.IsAbs(name) {
			return "", false
		}
		os.MkdirAll(filepath.Dir(filepath.Join(dir, name)), 0o755)
		if err := os.WriteFile(filepath.Join(dir, name), f.Data, 0o644); err != nil {
			return "", false
		}
	}
	var args []string
	if len(cfg.Args) > 1 {
		args = cfg.Args[1:]
	}
	ctx, cancel := context.WithTimeout(context.Background(), 5*time.Minute)
	defer cancel()
	cmd := exec.CommandContext(ctx, bin, args...)
	cmd.Dir = dir
	cmd.Stdin = bytes.NewReader(cfg.Stdin)
	var se tailBuf
	cmd.Stdout = io.Discard
	cmd.Stderr = &se
	err = cmd.Run()
	if ctx.Err() != nil {
		return "", false
	}
	if err == nil {
		return "", true
	}
	ee, ok := err.(*exec.ExitError)
	if !ok {
		return "", false
	}
	if ee.ExitCode() == -1 {
		return "killed: " + ee.Error(), true
	}
	head := se.head()
	if ee.ExitCode() == 2 && (strings.Contains(head, "fatal error:") || strings.Contains(head, "panic:") || strings.Contains(head, "goroutine ")) {
		first := head
		if i := strings.Index(first, "fatal error:"); i >= 0 {
			first = first[i:]
		}
		if i := strings.IndexByte(first, '\n'); i >= 0 {
			first = first[:i]
		}
		return "exit status 2 (" + first + ")", true
	}
	return "", true
}

// tailBuf keeps the first 64 KiB written to it (a Go crash dump can be huge).
type tailBuf struct{ b []byte }

func (t *tailBuf) Write(p []byte) (int, error) {
	if room := 65536 - len(t.b); room > 0 {
		if len(p) < room {
			room = len(p)
		}
		t.b = append(t.b, p[:room]...)
	}
	return len(p), nil
}
func (t *tailBuf) head() string { return string(t.b) }
