package main

import (
	"fmt"
	"os"
	"path/filepath"
	"sort"
	"strings"

	sim "github.com/ah-naf/borno/verifsimrt"
)

// C13 — execution is deterministic. The quantifier is programs x schedules:
// map-iteration order, time of day, heap layout / GC points, process identity,
// and the values of sources the code does not use today (math/rand, pid, env).
// Oracle: all schedules of one (program, stdin) agree on stdout, exit status
// and first diagnostic; plus the two stated particulars (initialiser side
// effects in source order, repeated listings equal).

type C13Expect struct {
	Tags       []string `json:"tags,omitempty"`        // every "T:<n>" line, in the order they must be printed
	CheckTags  bool     `json:"check_tags,omitempty"`
	MaskPrefix []string `json:"mask_prefix,omitempty"` // stdout lines with these prefixes depend on ক্লক and are masked
	MaskLine1  bool     `json:"mask_line1,omitempty"`
	Source     string   `json:"source"`
}

func init() {
	register(&Property{
		ID:          "C13",
		PrunableRuns: true,
		Level:       "exploration",
		Systematic:  c13Systematic,
		Random:      c13Random,
		RandomCount: func(tier string) int { return map[string]int{"quick": 900, "thorough": 50000}[tier] },
		Eval:        c13Eval,
		Rule: "programs = the 8 shipped example/*.bn + object-heavy generated programs (literals whose initialisers print tags, literals with two failing initialisers, missing-property diagnostics that quote a literal, repeated key/value listings, loops over listings, nested literals, printed functions) + C12's operation programs + C06's faulty programs; each (program, stdin) runs under 8 (quick) / 16 (thorough) schedules that vary map order per dynamic range, wall-clock start and steps, GC points, heap ballast, rand seed, pid and environment, always including identity and full reverse, and some of them in a fresh OS process; oracle = all runs agree. " +
			"distinct_nontrivial counts distinct (program kind, order-decision vector consumed on >=2-key maps) pairs with a non-identity decision.",
		DistinctSet: "c13_prog_x_orders",
		Assumptions: []string{
			"stdin bytes and stdin delivery are held fixed across the schedules of one case (delivery is C19's dimension)",
			"programs that call ক্লক are compared with the clock-derived lines masked (the documented exception)",
			"any permutation of map keys may be handed out (Go leaves the order unspecified)",
		},
		Components: map[string]string{
			"whole CLI":                                           "real code (instrumented copy)",
			"map order, clock, GC points, ballast, rand, pid, env": "stub (verifsimrt), decided by the schedule",
			"fresh-process runs":                                  "real OS processes of the same harness binary (subcommand 'one')",
		},
		// (per-site counters "reach.site.<file>#<n>" are reported for whatever range-over-map sites the tree has)
		ReachTargets: []string{"fault.map_order_non_identity", "fault.fresh_process_runs", "fault.gc_points_scheduled", "fault.heap_ballast_runs", "kind.churn", "kind.diag-heavy", "kind.frontend-errors", "kind.repl-session", "kind.example", "kind.grammar"},
	})
}

// ---------------------------------------------------------------- schedules

func c13Schedules(s Src, base sim.Config, n int, nranges int, fresh bool) []Run {
	// the very same configuration again: in this process, and (sometimes) in a fresh one
	runs := []Run{{Role: "identity", Cfg: base}, {Role: "identity-again", Cfg: base}}
	if fresh {
		runs = append(runs, Run{Role: "fresh-process:identity", Cfg: base})
	}
	rev := base
	for i := 0; i < nranges; i++ {
		rev.Orders = append(rev.Orders, -1)
	}
	rev.ClockStartMs = 8_835_868_800_000
	rev.Pid = 7
	rev.HeapBias = 1100 << 20
	rev.RandSeed = 99
	rev.SchedSeed, rev.SchedQuantum, rev.ClockTickUs, rev.ReadDelayMs = 12345, 1, 1000, 3000
	rev.Env = map[string]string{"HOME": "/x", "TZ": "Asia/Dhaka"}
	runs = append(runs, Run{Role: "reverse", Cfg: rev})
	for i := 2; i < n; i++ {
		c := base
		c.Orders = drawOrders(s, nranges)
		c = drawClock(s, c, 4)
		c = drawGC(s, c)
		c.RandSeed = int64(s.Int("randseed", 0, 1000))
		c.HeapBias = Pick(s, "heapbias", []uint64{0, 0, 64 << 20, 900 << 20, 1100 << 20, 5 << 30})
		c.Pid = s.Int("pid", 0, 30000)
		c = drawSched(s, c, true) // (inert on a tree without goroutines and timers)
		if Bool(s, "env") {
			c.Env = map[string]string{"HOME": "/home/u" + fmt.Sprint(s.Int("envn", 0, 9)), "LANG": "bn_BD.UTF-8"}
		}
		role := fmt.Sprintf("sched%d", i)
		if fresh && i == n-1 {
			role = "fresh-process:" + role
		}
		runs = append(runs, Run{Role: role, Cfg: c})
	}
	return runs
}

// ---------------------------------------------------------------- object-heavy generator

func c13ObjectProgram(s Src) (string, *C13Expect) {
	ex := &C13Expect{Source: "object-heavy", CheckTags: true, MaskPrefix: []string{"CLK "}}
	var ls []string
	ls = append(ls, fmt.Sprintf("%s tag(t, v) { %s \"T:\" + t; %s v; }", KwFun, KwPrint, KwReturn))
	ntag := 0
	nobj := 0
	objKeys := map[int]map[string]bool{}
	setKeys := func(o int, ks ...string) {
		if objKeys[o] == nil {
			objKeys[o] = map[string]bool{}
		}
		for _, k := range ks {
			objKeys[o][k] = true
		}
	}
	pool := []string{"zeta", "alpha", "mid", "beta", "omega", "gamma", "\u0995", "delta", "ID", "id", "Id", "\u09ac\u09df\u09b8", "Alpha",
		// long names that share their first 16 bytes and have equal length
		"customer_account_name1", "customer_account_name2", "\u0997\u09cd\u09b0\u09be\u09b9\u0995\u09c7\u09b0_\u09a8\u09be\u09ae", "\u0997\u09cd\u09b0\u09be\u09b9\u0995\u09c7\u09b0_\u09a6\u09be\u09ae",
		// two spellings of one canonically equivalent name (U+09CB vs U+09C7 U+09BE)
		"\u099b\u09cb\u099f", "\u099b\u09c7\u09be\u099f", "k2", "k10",
		// the same name with an ASCII and a Bangla digit
		"room1", "room\u09e7", "\u0998\u09b01", "\u0998\u09b0\u09e7"}
	drawKeys := func(n int) []string {
		p := append([]string(nil), pool...)
		for i := 0; i < n; i++ {
			j := i + s.Int("kp", 0, len(p)-1-i)
			p[i], p[j] = p[j], p[i]
		}
		return p[:n]
	}
	n := s.Int("nstmts", 2, 8)
	terminal := false
	for i := 0; i < n && !terminal; i++ {
		switch s.Int("stmt", 0, 18) {
		case 0, 1: // literal whose initialisers print tags
			keys := drawKeys(s.Int("nk", 2, 6))
			var parts []string
			for _, k := range keys {
				ntag++
				parts = append(parts, fmt.Sprintf("%s: tag(%d, %d)", k, ntag, ntag))
				ex.Tags = append(ex.Tags, fmt.Sprintf("T:%d", ntag))
			}
			nobj++
			setKeys(nobj, keys...)
			ls = append(ls, fmt.Sprintf("%s ob%d = {%s};", KwVar, nobj, strings.Join(parts, ", ")))
		case 2: // listings repeated twice
			if nobj == 0 {
				continue
			}
			o := fmt.Sprintf("ob%d", 1+s.Int("which", 0, nobj-1))
			fn := Pick(s, "lfn", []string{FnKeys, FnValues})
			ls = append(ls, fmt.Sprintf("%s \"@L\";", KwPrint), fmt.Sprintf("%s %s(%s);", KwPrint, fn, o), fmt.Sprintf("%s %s(%s);", KwPrint, fn, o))
		case 3: // loop over a listing
			if nobj == 0 {
				continue
			}
			on := 1 + s.Int("which", 0, nobj-1)
			o := fmt.Sprintf("ob%d", on)
			ls = append(ls, fmt.Sprintf("%s ks%d = %s(%s);", KwVar, i, FnKeys, o),
				fmt.Sprintf("%s (%s j%d = 0; j%d < %d; j%d = j%d + 1) { %s ks%d[j%d]; }", KwFor, KwVar, i, i, len(objKeys[on]), i, i, KwPrint, i, i))
		case 4: // nested literal with tags at both levels
			k := drawKeys(3)
			ntag += 3
			ex.Tags = append(ex.Tags, fmt.Sprintf("T:%d", ntag-2), fmt.Sprintf("T:%d", ntag-1), fmt.Sprintf("T:%d", ntag))
			nobj++
			setKeys(nobj, k[0], k[1], k[2])
			ls = append(ls, fmt.Sprintf("%s ob%d = {%s: tag(%d, 1), %s: {%s: tag(%d, 2), %s: 5}, %s: tag(%d, 3)};", KwVar, nobj, k[0], ntag-2, k[1], k[2], ntag-1, k[0], k[2], ntag))
		case 5: // printing functions and containers of functions, whole objects
			if nobj > 0 && Bool(s, "whole") {
				ls = append(ls, fmt.Sprintf("%s ob%d;", KwPrint, 1+s.Int("which", 0, nobj-1)))
			} else {
				ls = append(ls, fmt.Sprintf("%s tag;", KwPrint), fmt.Sprintf("%s [tag, %s, {f: tag}];", KwPrint, FnLen))
			}
		case 6: // clock (masked)
			ls = append(ls, fmt.Sprintf("%s \"CLK \" + %s();", KwPrint, FnClock))
		case 7: // terminal: two failing initialisers
			k := drawKeys(3)
			ntag++
			ex.Tags = append(ex.Tags, fmt.Sprintf("T:%d", ntag))
			ls = append(ls, fmt.Sprintf("%s bad = {%s: tag(%d, 1), %s: nxa, %s: nxb};", KwVar, k[0], ntag, k[1], k[2]))
			terminal = true
		case 8: // terminal: missing property on a literal receiver (diagnostic quotes the literal)
			k := drawKeys(4)
			if Bool(s, "repeatedname") {
				k[3] = k[0] // the literal names a property twice: whatever is quoted must still be the same every time
			}
			ls = append(ls, fmt.Sprintf("%s ({%s: 1, %s: 2, %s: 3, %s: 4}).nothere;", KwPrint, k[0], k[1], k[2], k[3]))
			terminal = true
		case 12: // an object with many properties (70 > any small internal bound), printed whole and listed
			var parts []string
			start := s.Int("bigstart", 0, 40)
			for j := 0; j < 70; j++ {
				parts = append(parts, fmt.Sprintf("p%02d: %d", (start+j*37)%97, j))
			}
			nobj++
			setKeys(nobj)
			ls = append(ls, fmt.Sprintf("%s ob%d = {%s};", KwVar, nobj, strings.Join(parts, ", ")))
			if Bool(s, "writefirst") {
				// written right after it was built, then after some work, then listed: whatever the
				// implementation prepares in the background must not show through
				ls = append(ls, fmt.Sprintf("ob%d.zz_new = 99;", nobj), fmt.Sprintf("%s (%s bw%d = 0; bw%d < %d; bw%d = bw%d + 1) { }", KwFor, KwVar, nobj, nobj, s.Int("work", 0, 40), nobj, nobj),
					fmt.Sprintf("ob%d.aa_new = 98;", nobj), fmt.Sprintf("%s(ob%d, \"p%02d\");", FnDelete, nobj, start%97))
			}
			ls = append(ls, fmt.Sprintf("%s ob%d;", KwPrint, nobj), fmt.Sprintf("%s %s(ob%d);", KwPrint, FnKeys, nobj), fmt.Sprintf("%s %s(ob%d);", KwPrint, FnValues, nobj))
		case 18: // a long array holding the same object many times, and one of 3000 numbers: printed, minimum and maximum
			nobj++
			setKeys(nobj, "k", "m")
			ls = append(ls, fmt.Sprintf("%s ob%d = {k: 1, m: [1, 2]};", KwVar, nobj),
				fmt.Sprintf("%s [ob%d, ob%d, ob%d, ob%d, ob%d, ob%d, ob%d, ob%d, ob%d, ob%d, 1, [ob%d, ob%d]];", KwPrint, nobj, nobj, nobj, nobj, nobj, nobj, nobj, nobj, nobj, nobj, nobj, nobj),
				fmt.Sprintf("%s big%d = [];", KwVar, nobj),
				fmt.Sprintf("%s (%s bi%d = 0; bi%d < 3000; bi%d = bi%d + 1) { big%d = %s(big%d, (bi%d * 7919) %% 3001); }", KwFor, KwVar, nobj, nobj, nobj, nobj, nobj, FnAppend, nobj, nobj),
				fmt.Sprintf("%s %s(big%d); %s %s(big%d);", KwPrint, FnMin, nobj, KwPrint, FnMax, nobj))
		case 13: // two different names, each repeated (anything said about repeated names must come in a fixed order)
			keys := drawKeys(3)
			ntag += 5
			for j := 4; j >= 0; j-- {
				ex.Tags = append(ex.Tags, fmt.Sprintf("T:%d", ntag-j))
			}
			nobj++
			setKeys(nobj, keys...)
			ls = append(ls, fmt.Sprintf("%s ob%d = {%s: tag(%d, 1), %s: tag(%d, 2), %s: tag(%d, 3), %s: tag(%d, 4), %s: tag(%d, 5)};", KwVar, nobj, keys[0], ntag-4, keys[1], ntag-3, keys[0], ntag-2, keys[1], ntag-1, keys[2], ntag),
				fmt.Sprintf("%s %s(ob%d);", KwPrint, FnValues, nobj))
		case 15: // an object holding both spellings of one canonically equivalent name; one of them is deleted
			nobj++
			a, b := "\u099b\u09cb\u099f", "\u099b\u09c7\u09be\u099f"
			if Bool(s, "swapspell") {
				a, b = b, a
			}
			setKeys(nobj, b, "zeta")
			ls = append(ls, fmt.Sprintf("%s ob%d = {%s: 1, zeta: 3, %s: 2};", KwVar, nobj, a, b), fmt.Sprintf("%s(ob%d, \"%s\");", FnDelete, nobj, a),
				fmt.Sprintf("%s %s(ob%d);", KwPrint, FnValues, nobj), fmt.Sprintf("%s ob%d;", KwPrint, nobj))
		case 14: // delete one of the (possibly canonically equivalent) names of an object, then list it
			if nobj == 0 {
				continue
			}
			on := 1 + s.Int("which", 0, nobj-1)
			var ks []string
			for k := range objKeys[on] {
				ks = append(ks, k)
			}
			if len(ks) == 0 {
				continue
			}
			sort.Strings(ks)
			dk := Pick(s, "delkey", ks)
			delete(objKeys[on], dk)
			ls = append(ls, fmt.Sprintf("%s(ob%d, \"%s\");", FnDelete, on, dk), fmt.Sprintf("%s %s(ob%d);", KwPrint, FnValues, on), fmt.Sprintf("%s %s(ob%d);", KwPrint, FnKeys, on))
		case 16: // initialisers with side effects that are NOT calls (assignments), with or without a repeated name:
			// the operations do not commute, so the order shows in the counter and in the values
			keys := drawKeys(4)
			if Bool(s, "repeatname") {
				keys[2] = keys[0]
			}
			if Bool(s, "repeatname2") {
				keys[3] = keys[1]
			}
			nobj++
			setKeys(nobj, keys...)
			ls = append(ls, fmt.Sprintf("%s cnt%d = 1;", KwVar, nobj),
				fmt.Sprintf("%s ob%d = {%s: (cnt%d = cnt%d * 2 + 1), %s: (cnt%d = cnt%d * 3), %s: (cnt%d = cnt%d + 5), %s: (cnt%d = cnt%d * 7)};", KwVar, nobj, keys[0], nobj, nobj, keys[1], nobj, nobj, keys[2], nobj, nobj, keys[3], nobj, nobj),
				fmt.Sprintf("%s cnt%d;", KwPrint, nobj), fmt.Sprintf("%s %s(ob%d);", KwPrint, FnValues, nobj), fmt.Sprintf("%s ob%d;", KwPrint, nobj))
		case 17: // terminal: a repeated name and two failing initialisers, no call anywhere in the literal
			k := drawKeys(2)
			ls = append(ls, fmt.Sprintf("%s bad = {%s: nxa, %s: 1, %s: nxb};", KwVar, k[0], k[1], k[0]))
			terminal = true
		case 11: // a literal that names a property twice: every initialiser still runs, in source order
			keys := drawKeys(3)
			ntag += 4
			ex.Tags = append(ex.Tags, fmt.Sprintf("T:%d", ntag-3), fmt.Sprintf("T:%d", ntag-2), fmt.Sprintf("T:%d", ntag-1), fmt.Sprintf("T:%d", ntag))
			nobj++
			setKeys(nobj, keys...)
			ls = append(ls, fmt.Sprintf("%s ob%d = {%s: tag(%d, 1), %s: tag(%d, 2), %s: tag(%d, 3), %s: tag(%d, 4)};", KwVar, nobj, keys[0], ntag-3, keys[1], ntag-2, keys[0], ntag-1, keys[2], ntag),
				fmt.Sprintf("%s ob%d.%s;", KwPrint, nobj, keys[0]))
		case 10: // a built-in applied to an object with awkward values (0, -0, NaN): result or error, but the same every time
			k := drawKeys(4)
			fn := Pick(s, "bfn", []string{FnMin, FnMax, FnLen, FnAbs, FnRound, FnKeys, FnValues, FnSqrt})
			ls = append(ls, fmt.Sprintf("%s %s({%s: 0, %s: -0, %s: %s(-4), %s: 5});", KwPrint, fn, k[0], k[1], k[2], FnSqrt, k[3]))
			if fn != FnKeys && fn != FnValues {
				terminal = true // an error today
			}
		case 9: // write then list
			if nobj == 0 {
				continue
			}
			on := 1 + s.Int("which", 0, nobj-1)
			o := fmt.Sprintf("ob%d", on)
			wk := Pick(s, "wk", pool)
			setKeys(on, wk)
			ls = append(ls, fmt.Sprintf("%s.%s = %d;", o, wk, 500+i), fmt.Sprintf("%s %s(%s);", KwPrint, FnValues, o))
		}
	}
	ls = append(ls, fmt.Sprintf("%s \"end\";", KwPrint))
	return strings.Join(ls, "\n") + "\n", ex
}

// ---------------------------------------------------------------- diagnostics-heavy generator

// Programs with several similarly named variables, parameters, functions and
// properties in scope that end in one runtime error of a drawn kind: whatever
// the diagnostic says (hints, quoted source, suggestions) must not depend on
// the order in which any table is walked.
func c13DiagProgram(s Src) (string, *C13Expect) {
	ex := &C13Expect{Source: "diag-heavy"}
	var ls []string
	stems := []string{"total", "count", "name", "value"}
	st := Pick(s, "stem", stems)
	variants := []string{st + "1", st + "2", strings.ToUpper(st), strings.ToUpper(st[:1]) + st[1:], st + "s", st + "a", st[:len(st)-1], "x" + st, st + "_", st + "\u0995"}
	nv := s.Int("nvars", 2, 8)
	for i := 0; i < nv; i++ {
		ls = append(ls, fmt.Sprintf("%s %s = %d;", KwVar, variants[i], i+1))
	}
	ls = append(ls, fmt.Sprintf("%s work1(p%s1, p%s2) { %s l%sa = 1; %s p%s1 + l%sa; }", KwFun, st, st, KwVar, st, KwReturn, st, st))
	ls = append(ls, fmt.Sprintf("%s work2(a) { %s a; }", KwFun, KwReturn))
	ls = append(ls, fmt.Sprintf("%s worka() { %s l%s1 = 1; %s l%s2 = 2; %s l%s; }", KwFun, KwVar, st, KwVar, st, KwPrint, st))
	ls = append(ls, fmt.Sprintf("%s obj = {%s1: 1, %s2: 2, %s: 3, %sx: 4};", KwVar, st, st, st[:len(st)-1], st))
	ls = append(ls, fmt.Sprintf("%s \"before\";", KwPrint))
	switch s.Int("errkind", 0, 9) {
	case 0:
		ls = append(ls, fmt.Sprintf("%s %s;", KwPrint, st))
	case 1:
		ls = append(ls, fmt.Sprintf("%s = 5;", st))
	case 2:
		ls = append(ls, fmt.Sprintf("%s obj.%sy;", KwPrint, st))
	case 3:
		ls = append(ls, "work(1, 2);")
	case 4:
		ls = append(ls, "worka();")
	case 5:
		ls = append(ls, "work1(1);")
	case 6:
		ls = append(ls, fmt.Sprintf("%s %s = 9;", KwVar, variants[0]))
	case 7:
		ls = append(ls, fmt.Sprintf("%s();", variants[0]))
	case 8:
		ls = append(ls, fmt.Sprintf("%s(obj, \"%sz\");", FnDelete, st))
	default:
		ls = append(ls, fmt.Sprintf("%s obj.%s1.deep;", KwPrint, st))
	}
	ls = append(ls, fmt.Sprintf("%s \"after\";", KwPrint))
	return strings.Join(ls, "\n") + "\n", ex
}

// churn: many short-lived objects of equal size and different shape, listed
// right after creation, with the collector running only where the schedule
// says. Anything keyed on an address (or otherwise surviving an object) shows
// as a difference between schedules with different GC points.
func c13ChurnProgram(s Src) (string, *C13Expect) {
	n := s.Int("iters", 200, 1200)
	var ls []string
	ls = append(ls, fmt.Sprintf("%s i = 0;", KwVar))
	ls = append(ls, fmt.Sprintf("%s (i < %d) {", KwWhile, n))
	ls = append(ls, fmt.Sprintf("  %s a = {alpha: i, beta: 1};", KwVar))
	ls = append(ls, fmt.Sprintf("  %s %s(a);", KwPrint, FnKeys))
	ls = append(ls, fmt.Sprintf("  %s b = {gamma: i, delta: 2};", KwVar))
	ls = append(ls, fmt.Sprintf("  %s %s(b);", KwPrint, FnKeys))
	ls = append(ls, fmt.Sprintf("  %s c = [i, i + 1];", KwVar))
	ls = append(ls, fmt.Sprintf("  %s d = {omega: c, zeta: 3};", KwVar))
	ls = append(ls, fmt.Sprintf("  %s %s(d);", KwPrint, FnValues))
	ls = append(ls, "  i = i + 1;")
	ls = append(ls, "}")
	return strings.Join(ls, "\n") + "\n", &C13Expect{Source: "churn"}
}

func c13ChurnCase(s Src) *Case {
	prog, ex := c13ChurnProgram(s)
	cs := &Case{Prop: "C13", Kind: "churn", Sig: "churn", Program: prog, Aux: &Aux{C13: ex}}
	base := scriptCfg(prog, "")
	base.GCOff = true
	base.Budget = 20000000
	cs.Runs = []Run{{Role: "fresh-process:no-gc", Cfg: base}}
	for i := 0; i < 3; i++ {
		c := base
		t := 0
		k := s.Int("ngc", 2, 12)
		for j := 0; j < k; j++ {
			t += s.Int("gcgap", 2000, 60000)
			c.GCTicks = append(c.GCTicks, t)
		}
		c.HeapBias = []uint64{64 << 20, 1100 << 20, 5 << 30}[i]
		cs.Runs = append(cs.Runs, Run{Role: fmt.Sprintf("fresh-process:gc%d", i), Cfg: c})
	}
	return cs
}

// ---------------------------------------------------------------- cases

func c13Case(s Src, kind, prog, stdin string, ex *C13Expect, nsched int, fresh bool) *Case {
	cs := &Case{Prop: "C13", Kind: kind, Sig: kind, Program: prog, Aux: &Aux{C13: ex}}
	base := scriptCfg(prog, stdin)
	if strings.Contains(prog, "< 3000;") {
		base.Budget += 3000000 // the 3000-element array is built by a loop
	}
	nr := strings.Count(prog, "{") + strings.Count(prog, FnKeys) + strings.Count(prog, FnValues) + 8
	if nr > 400 {
		nr = 400
	}
	cs.Runs = c13Schedules(s, base, nsched, nr, fresh)
	return cs
}

func c13Examples() map[string]string {
	dir := os.Getenv("VERIF_EXAMPLES_DIR")
	out := map[string]string{}
	if dir == "" {
		return out
	}
	ents, err := os.ReadDir(dir)
	if err != nil {
		return out
	}
	for _, e := range ents {
		if strings.HasSuffix(e.Name(), ".bn") {
			b, err := os.ReadFile(filepath.Join(dir, e.Name()))
			if err == nil {
				out[e.Name()] = string(b)
			}
		}
	}
	return out
}

func c13Systematic(tier string) []*Case {
	var out []*Case
	ex := c13Examples()
	var names []string
	for n := range ex {
		names = append(names, n)
	}
	sort.Strings(names)
	for i, n := range names {
		for rep := 0; rep < 3; rep++ {
			src := &lcgSrc{x: uint64(i*31+rep)*2654435761 + 7}
			e := &C13Expect{Source: "example/" + n}
			if n == "native_function.bn" {
				e.MaskLine1 = true
			}
			prog, name, fresh := ex[n], n, rep == 0
			cs := generated(src, func(s Src) *Case {
				c := c13Case(s, "example", prog, "some input line\nsecond\n", e, 8, fresh)
				c.Sig = "example/" + name
				return c
			})
			out = append(out, cs)
		}
	}
	for i := 0; i < 40; i++ {
		src := &lcgSrc{x: uint64(i)*977 + 3}
		fresh := i%10 == 0
		out = append(out, generated(src, func(s Src) *Case {
			prog, e := c13ObjectProgram(s)
			return c13Case(s, "object-heavy", prog, "", e, 8, fresh)
		}))
	}
	for i := 0; i < 40; i++ {
		src := &lcgSrc{x: uint64(i)*1531 + 11}
		fresh := i%10 == 0
		out = append(out, generated(src, func(s Src) *Case {
			prog, e := c13DiagProgram(s)
			return c13Case(s, "diag-heavy", prog, "", e, 8, fresh)
		}))
	}
	// name pairs that an implementation might treat as equal (letter case, canonical
	// equivalence, digit script, numeric suffix): each pair in one object, listed, printed,
	// one of the two deleted, listed again — swept, not left to the random draw
	pairs := [][2]string{{"ID", "id"}, {"Id", "id"}, {"Alpha", "alpha"}, {"\u099b\u09cb\u099f", "\u099b\u09c7\u09be\u099f"}, {"\u09ac\u09df\u09b8", "\u09ac\u09af\u09bc\u09b8"},
		{"k2", "k10"}, {"room1", "room\u09e7"}, {"\u0998\u09b01", "\u0998\u09b0\u09e7"}, {"customer_account_name1", "customer_account_name2"}}
	for i, pr := range pairs {
		for _, swap := range []bool{false, true} {
			a, b := pr[0], pr[1]
			if swap {
				a, b = b, a
			}
			prog := lines(
				fmt.Sprintf("%s ob = {%s: 1, zeta: 3, %s: 2};", KwVar, a, b),
				fmt.Sprintf("%s %s(ob);", KwPrint, FnKeys), fmt.Sprintf("%s %s(ob);", KwPrint, FnValues), fmt.Sprintf("%s ob;", KwPrint),
				fmt.Sprintf("%s %s(ob);", KwPrint, FnKeys), fmt.Sprintf("%s %s(ob);", KwPrint, FnValues),
				fmt.Sprintf("%s(ob, \"%s\");", FnDelete, a),
				fmt.Sprintf("%s %s(ob);", KwPrint, FnKeys), fmt.Sprintf("%s %s(ob);", KwPrint, FnValues), fmt.Sprintf("%s ob;", KwPrint),
				fmt.Sprintf("%s ob.%s;", KwPrint, a))
			p2 := prog
			src := &lcgSrc{x: uint64(i)*4099 + 17}
			if swap {
				src.x += 7
			}
			out = append(out, generated(src, func(s Src) *Case {
				return c13Case(s, "name-pair", p2, "", &C13Expect{Source: "name-pair"}, 8, false)
			}))
		}
	}
	nchurn := 6
	if tier == "thorough" {
		nchurn = 60
	}
	for i := 0; i < nchurn; i++ {
		out = append(out, generated(&lcgSrc{x: uint64(i)*7001 + 5}, c13ChurnCase))
	}
	return out
}

func c13Random(s Src, tier string) *Case {
	n := 8
	if tier == "thorough" {
		n = 16
	}
	fresh := Chance(s, "fresh", 1, 40)
	switch s.Int("family", 0, 20) {
	case 17, 18, 19, 20:
		// programs straight from the grammar: no prediction, only agreement between schedules
		prog := randomProgram(s)
		if Chance(s, "valid", 1, 3) {
			// valid by construction (closures, functions in containers, recursion, shadowing): runs to the end
			prog, _ = validProgramOpt(s, true)
			cs := c13Case(s, "grammar", prog, "", &C13Expect{Source: "grammar"}, n, fresh)
			for i := range cs.Runs {
				cs.Runs[i].Cfg.Budget = 30000000 // nested counted loops and calls
			}
			return cs
		}
		return c13Case(s, "grammar", prog, "", &C13Expect{Source: "grammar"}, n, fresh)
	case 15, 16:
		// several front-end errors of different kinds on different lines: the first diagnostic must be stable
		k := s.Int("nerr", 2, 4)
		var ls []string
		for i := 0; i < k; i++ {
			ls = append(ls, fmt.Sprintf("%s \"ok%d\";", KwPrint, i))
			e := c19Errors[s.Int("errkind", 0, 21)]
			if !e.last || i == k-1 {
				ls = append(ls, e.text)
			}
			for j := s.Int("pad", 0, 30); j > 0; j-- {
				ls = append(ls, fmt.Sprintf("%s v%d_%d = %d;", KwVar, i, j, j))
			}
		}
		prog := strings.Join(ls, "\n") + "\n"
		return c13Case(s, "frontend-errors", prog, "", &C13Expect{Source: "frontend-errors"}, n, fresh)
	case 13, 14:
		// an interactive session (same bytes on stdin, same delivery) under different schedules
		k := s.Int("nlines", 2, 8)
		var ls []string
		for i := 0; i < k; i++ {
			l := c20Pool[s.Int("line", 0, len(c20Pool)-1)]
			if len(l.text) > 300 {
				l = c20Pool[0]
			}
			ls = append(ls, l.text)
		}
		ls = append(ls, KwVar+" ob = {zeta: 1, alpha: 2, mid: 3}; "+KwPrint+" "+FnKeys+"(ob); "+KwPrint+" ob.nothere;")
		stdin := strings.Join(ls, "\n") + "\n"
		cs := &Case{Prop: "C13", Kind: "repl-session", Sig: "repl-session", Program: stdin, Aux: &Aux{C13: &C13Expect{Source: "repl"}}}
		cs.Runs = c13Schedules(s, replCfg(stdin), n, 40, fresh)
		return cs
	case 10, 11, 12:
		prog, e := c13DiagProgram(s)
		return c13Case(s, "diag-heavy", prog, "", e, n, fresh)
	case 0, 1:
		maxOps := 8
		prog, _ := c12Program(s, maxOps)
		return c13Case(s, "c12-ops", prog, "", &C13Expect{Source: "c12"}, n, fresh)
	case 2:
		var plan c06Plan
		k := s.Int("chainlen", 0, 2)
		for i := 0; i < k; i++ {
			plan.chain = append(plan.chain, Pick(s, "enc", c06Enclosing))
		}
		plan.fault = c06DrawFault(s, plan.chain)
		c6 := c06Case(plan, s, 1, "c13")
		return c13Case(s, "c06-fault", c6.Program, string(c6.Runs[0].Cfg.Stdin), &C13Expect{Source: "c06"}, n, fresh)
	default:
		prog, e := c13ObjectProgram(s)
		return c13Case(s, "object-heavy", prog, "", e, n, fresh)
	}
}

// ---------------------------------------------------------------- oracle

func c13Mask(stdout string, ex *C13Expect) string {
	if ex == nil || (len(ex.MaskPrefix) == 0 && !ex.MaskLine1) {
		return stdout
	}
	ls := strings.Split(stdout, "\n")
	for i, l := range ls {
		if ex.MaskLine1 && i == 0 {
			ls[i] = "<masked>"
			continue
		}
		for _, p := range ex.MaskPrefix {
			if strings.HasPrefix(l, p) {
				ls[i] = p + "<masked>"
			}
		}
	}
	return strings.Join(ls, "\n")
}

func c13Eval(cs *Case, ctx *EvalCtx) []Violation {
	obs := ctx.RunAll(cs)
	ex := cs.Aux.C13
	var vs []Violation
	add := func(run int, class, sig, msg string) {
		vs = append(vs, Violation{Prop: "C13", Class: "C13/" + class, Sig: sig, Msg: msg, Run: run})
	}
	type key struct {
		out, diag string
		exit      int
	}
	var first key
	for i, o := range obs {
		if o.Res.Budget {
			add(i, "no-termination", cs.Kind, "["+cs.Runs[i].Role+"] step budget exceeded")
			return vs
		}
		d, _, _ := FirstDiagnostic(o.Stderr)
		k := key{c13Mask(o.Stdout, ex), d, o.ExitStatus()}
		if o.Res.Panic != "" {
			k.diag = "PANIC " + o.Res.Panic
		}
		if i == 0 {
			first = k
			continue
		}
		if k != first {
			what := "stdout"
			if k.out == first.out {
				what = "first diagnostic"
				if k.diag == first.diag {
					what = "exit status"
				}
			}
			add(i, "differs-between-runs", cs.Kind+":"+strings.ReplaceAll(what, " ", "-"),
				fmt.Sprintf("same program, same input: %s differs between schedule %s and %s:\n  %s: exit=%d stdout=%q diag=%q\n  %s: exit=%d stdout=%q diag=%q",
					what, cs.Runs[0].Role, cs.Runs[i].Role, cs.Runs[0].Role, first.exit, first.out, first.diag, cs.Runs[i].Role, k.exit, k.out, k.diag))
			break
		}
	}
	// stated particulars, per run
	for i, o := range obs {
		if ex.CheckTags {
			var got []string
			for _, l := range strings.Split(o.Stdout, "\n") {
				if strings.HasPrefix(l, "T:") {
					got = append(got, l)
				}
			}
			if strings.Join(got, " ") != strings.Join(ex.Tags, " ") {
				add(i, "initialisers-out-of-source-order", cs.Kind, fmt.Sprintf("[%s] initialiser side effects happened as %v, source order is %v", cs.Runs[i].Role, got, ex.Tags))
				break
			}
		}
		ls := strings.Split(o.Stdout, "\n")
		bad := false
		for j, l := range ls {
			if l == "@L" && j+2 < len(ls) && ls[j+1] != ls[j+2] {
				add(i, "listing-unstable", cs.Kind, fmt.Sprintf("[%s] two listings of an unmodified object differ: %q vs %q", cs.Runs[i].Role, ls[j+1], ls[j+2]))
				bad = true
				break
			}
		}
		if bad {
			break
		}
	}
	if ctx.Stats != nil {
		st := ctx.Stats
		st.Count("kind."+cs.Kind, 1)
		for i, r := range ctx.Results {
			c := cs.Runs[i].Cfg
			if strings.HasPrefix(cs.Runs[i].Role, "fresh-process") {
				st.Count("fault.fresh_process_runs", 1)
			}
			var b strings.Builder
			nontrivial := false
			idx := 0
			for _, e := range r.Events {
				if e.Kind != "ORDER" {
					continue
				}
				d := 0
				if idx < len(c.Orders) {
					d = c.Orders[idx]
				}
				idx++
				if e.N >= 2 {
					fmt.Fprintf(&b, "%d:%d,", e.N, d)
					if d != 0 {
						nontrivial = true
						st.Count("reach.site."+e.Data, 1)
					}
				}
			}
			if nontrivial {
				st.Seen("c13_prog_x_orders", cs.Sig+"|"+fmt.Sprint(hash64(cs.Program))+"|"+b.String())
			}
		}
	}
	return vs
}
