package main

import (
	"fmt"
	"sort"
	"strings"

	sim "github.com/ah-naf/borno/verifsimrt"
)

// C19 — exit status and output streams classify every run correctly.

type C19Expect struct {
	ExitNonZero bool   `json:"exit_nonzero,omitempty"` // unreadable file: any non-zero status
	NeedMessage bool   `json:"need_message,omitempty"` // 64 / unreadable: a message must be written
	FullStdout  string `json:"full_stdout,omitempty"`  // relaxed fault cases: stdout must be a prefix of this
	MinPrefix   string `json:"min_prefix,omitempty"`   // relaxed fault cases: stdout must start with this
}

func init() {
	register(&Property{
		ID:          "C19",
		Level:       "exploration",
		Systematic:  c19Systematic,
		Random:      c19Random,
		RandomCount: func(tier string) int { return map[string]int{"quick": 2400, "thorough": 400000}[tier] },
		Eval:        c19Eval,
		Rule: "cases = (argv/file-system table, swept completely) + (generated programs of each outcome class: clean / lexical / syntax / runtime error at a drawn position, with print, ইনপুট and ক্লক lines around it) + (programs with k ইনপুট calls x stdin of 0..6 lines) each run under several stdin delivery schedules (all-at-once, line, byte, random cuts incl. inside UTF-8 sequences and zero-length reads) and, separately, under injected early EOF / EIO. " +
			"distinct_nontrivial counts distinct (scenario kind, outcome class, #calls, #lines, final-newline, delivery mode, chunk-boundary pattern relative to line boundaries) tuples among cases that executed at least one delivery other than the neutral one or an argv/file fault.",
		DistinctSet: "c19_tuples",
		Assumptions: []string{
			"the instrumented copy behaves like the plain build (checked by the conformance self-test on 18 scenarios per run)",
			"whether a byte sequence is a lexical/syntax error is taken from the grammar for the planted errors only; no reference parser is used",
			"write errors on stdout/stderr are not injected (no property states behaviour under them)",
		},
		Components: map[string]string{
			"main.go argument handling, runFile, runPrompt, run": "real code (instrumented copy, package verifcli)",
			"lexer, parser, interpreter, built-ins, utils":        "real code (instrumented copy)",
			"argv, file system, stdin, stdout, stderr, exit":      "stub (verifsimrt)",
			"wall clock":                                         "stub (verifsimrt)",
		},
		ReachTargets: []string{"reach.read_returned_more_than_one_line", "reach.read_ended_inside_line", "reach.read_ended_inside_rune", "fault.stdin_eof_reads", "fault.stdin_eio", "fault.stdin_zero_length_read"},
	})
}

// ---------------------------------------------------------------- argv / files table

func c19Systematic(tier string) []*Case {
	var out []*Case
	okProg := lines(KwPrint+" "+bstr("ran")+";", KwVar+" c = "+FnClock+"();", KwPrint+" "+bstr("[")+" + "+FnInput+"("+bstr("p")+") + "+bstr("]")+";")
	okOut := "ran\np[data]\n"
	stdin := "data\n"
	mk := func(sig string, args []string, files map[string]sim.File) *Case {
		c := sim.Config{Args: append([]string{"borno"}, args...), Files: files, Stdin: []byte(stdin), StdinErrAt: -1}
		return &Case{Prop: "C19", Kind: "argv", Sig: "argv:" + sig, Program: okProg, Runs: []Run{{Role: "line", Cfg: withDelivery(c, "line")}, {Role: "all", Cfg: withDelivery(c, "all")}}}
	}
	f := func(names ...string) map[string]sim.File {
		m := map[string]sim.File{}
		for _, n := range names {
			m[n] = sim.File{Data: []byte(okProg)}
		}
		return m
	}
	// two and three arguments: 64, message, nothing runs
	for _, args := range [][]string{{"a.bn", "b.bn"}, {"a.bn", "b.bn", "c.bn"}, {"a.bn", "x"}, {"a.bn", ""}} {
		c := mk(fmt.Sprintf("%dargs", len(args)), args, f("a.bn", "b.bn", "c.bn"))
		c.ExpectExit, c.ExpectNoRun, c.ExpectStdout = ptrI(64), true, ptrS("")
		c.Aux = &Aux{C19: &C19Expect{NeedMessage: true}}
		out = append(out, c)
	}
	// arguments that look like options are ordinary arguments
	for _, args := range [][]string{{"--", "a.bn"}, {"a.bn", "--"}, {"-x", "a.bn"}, {"-", "a.bn"}, {"-h", "a.bn"}, {"--help", "a.bn"}, {"-test.v", "a.bn"}} {
		c := mk("2args-dash", args, f("a.bn", "--", "-x", "-", "-h"))
		c.ExpectExit, c.ExpectNoRun, c.ExpectStdout = ptrI(64), true, ptrS("")
		c.Aux = &Aux{C19: &C19Expect{NeedMessage: true}}
		out = append(out, c)
	}
	for _, n := range []string{"--", "-", "-h", "--help", "-a.txt", "--version"} {
		c := mk("badext-dash", []string{n}, f(n))
		c.ExpectExit, c.ExpectNoRun, c.ExpectStdout = ptrI(64), true, ptrS("")
		c.Aux = &Aux{C19: &C19Expect{NeedMessage: true}}
		out = append(out, c)
	}
	for _, n := range []string{"-a.bn", "--.bn", "-.bn"} {
		c := mk("goodext-dash", []string{n}, f(n))
		c.ExpectExit, c.ExpectStdout, c.ExpectStderr = ptrI(0), ptrS(okOut), "empty"
		out = append(out, c)
	}
	// one argument whose name does not end in .bn: 64
	for _, n := range []string{"a.txt", "a", "a.BN", "a.bn.txt", "a.borno", "a.bnn", "a.b", "abn", "a.bn ", "dir.bn/a", "a.", "bn"} {
		c := mk("badext", []string{n}, f(n))
		c.ExpectExit, c.ExpectNoRun, c.ExpectStdout = ptrI(64), true, ptrS("")
		c.Aux = &Aux{C19: &C19Expect{NeedMessage: true}}
		out = append(out, c)
	}
	// names ending in .bn: the script runs
	for _, n := range []string{"a.bn", "a.b.bn", "dir/a.bn", "./a.bn", ".bn", "a b.bn", "ক.bn", "a.txt.bn"} {
		c := mk("goodext", []string{n}, f(n))
		c.ExpectExit, c.ExpectStdout, c.ExpectStderr = ptrI(0), ptrS(okOut), "empty"
		out = append(out, c)
	}
	// unreadable files: non-zero, message, nothing runs
	for _, e := range []string{"ENOENT", "EACCES", "EISDIR", "EIO"} {
		files := map[string]sim.File{"a.bn": {Err: e}}
		c := mk("unreadable:"+e, []string{"a.bn"}, files)
		c.ExpectNoRun, c.ExpectStdout = true, ptrS("")
		c.Aux = &Aux{C19: &C19Expect{NeedMessage: true, ExitNonZero: true}}
		out = append(out, c)
	}
	{
		c := mk("unreadable:absent", []string{"zz.bn"}, map[string]sim.File{})
		c.ExpectNoRun, c.ExpectStdout = true, ptrS("")
		c.Aux = &Aux{C19: &C19Expect{NeedMessage: true, ExitNonZero: true}}
		out = append(out, c)
	}
	// degenerate but valid files
	degenerate := map[string]string{"empty": "", "blank": "\n\n  \n", "comment": "// nothing\n/* x */\n", "crlf": strings.ReplaceAll(okProg, "\n", "\r\n"), "nofinalnl": strings.TrimSuffix(okProg, "\n")}
	for _, name := range sortedStrKeys(degenerate) {
		content := degenerate[name]
		files := map[string]sim.File{"a.bn": {Data: []byte(content)}}
		c := mk("file:"+name, []string{"a.bn"}, files)
		c.Program = content
		c.ExpectExit, c.ExpectStderr = ptrI(0), "empty"
		if name == "crlf" || name == "nofinalnl" {
			c.ExpectStdout = ptrS(okOut)
		} else {
			c.ExpectStdout = ptrS("")
			c.ExpectNoRun = true
		}
		out = append(out, c)
	}
	// programs above size thresholds (buffers, recursion depth, counters)
	{
		var b, w strings.Builder
		for i := 0; i < 3000; i++ {
			fmt.Fprintf(&b, "%s %d;\n", KwPrint, i)
			fmt.Fprintf(&w, "%d\n", i)
		}
		big := map[string][2]string{
			"3000-statements": {b.String(), w.String()},
			"100k-string":     {KwPrint + " \"" + strings.Repeat("s", 100000) + "\";\n", strings.Repeat("s", 100000) + "\n"},
			"200-nested-blocks": {strings.Repeat("{ ", 200) + KwPrint + " \"deep\";" + strings.Repeat(" }", 200) + "\n", "deep\n"},
			"300-nested-parens": {KwPrint + " " + strings.Repeat("(", 300) + "7" + strings.Repeat(")", 300) + ";\n", "7\n"},
			"long-comment":      {"/* " + strings.Repeat("c\n", 5000) + "*/\n" + KwPrint + " \"after\";\n", "after\n"},
			"big-then-lex-error": {b.String() + "@\n", ""},
			"big-then-runtime-error": {b.String() + KwPrint + " nx;\n" + KwPrint + " \"never\";\n", w.String()},
		}
		var names []string
		for n := range big {
			names = append(names, n)
		}
		sort.Strings(names)
		for _, n := range names {
			prog, want := big[n][0], big[n][1]
			cfg := scriptCfg(prog, "")
			cfg.Budget = 40000000
			cs := &Case{Prop: "C19", Kind: "class", Sig: "big:" + n, Runs: []Run{{Role: "line", Cfg: cfg}}}
			cs.ExpectStdout = ptrS(want)
			switch n {
			case "big-then-lex-error":
				cs.ExpectExit, cs.ExpectStderr, cs.ExpectNoRun = ptrI(65), "nonempty", true
			case "big-then-runtime-error":
				cs.ExpectExit, cs.ExpectStderr = ptrI(70), "nonempty"
			default:
				cs.ExpectExit, cs.ExpectStderr = ptrI(0), "empty"
			}
			out = append(out, cs)
		}
	}
	// runaway recursion is a runtime error like any other: status 70, not a dead process
	{
		prog := lines(KwPrint+" \"before\";", KwFun+" f(n) { "+KwReturn+" f(n + 1) + 1; }", "f(0);", KwPrint+" \"after\";")
		cfg := scriptCfg(prog, "")
		cfg.Budget = 400000000
		cs := &Case{Prop: "C19", Kind: "class", Sig: "class:rt:runaway-recursion", Program: prog, Runs: []Run{{Role: "fresh-process:line", Cfg: cfg}}}
		cs.ExpectStdout, cs.ExpectExit, cs.ExpectStderr = ptrS("before\n"), ptrI(70), "nonempty"
		out = append(out, cs)
	}
	// no argument: REPL; end of input ends it with status 0
	{
		c := sim.Config{Args: []string{"borno"}, StdinErrAt: -1}
		cs := &Case{Prop: "C19", Kind: "argv", Sig: "argv:0args-eof", Runs: []Run{{Role: "line", Cfg: c}}}
		cs.ExpectExit, cs.ExpectStderr = ptrI(0), "empty"
		out = append(out, cs)
	}

	// small systematic input table: k calls x n lines x final newline x fixed deliveries
	for k := 0; k <= 3; k++ {
		for n := k; n <= k+1; n++ {
			for _, nl := range []bool{true, false} {
				if n == 0 && !nl {
					continue
				}
				ls := []string{" one", "two\t", "", "  four  four "}[:n]
				out = append(out, c19InputCase(k, ls, nl, []string{"line", "all", "byte", "3byte"}, nil, "sys"))
			}
		}
	}
	for n := 2; n <= 4; n++ {
		out = append(out, c19InputCase(n, []string{"first", "second line", "third", "4"}[:n], true, []string{"line", "all", "byte", "3byte"}, nil, "stored"))
	}
	// prompts are program text: a % in them is just a character
	{
		prog := lines(KwPrint+" \"[\" + "+FnInput+"(\"50% done? %d %s %\") + \"]\";", KwPrint+" "+FnInput+"(\"100%\");", KwPrint+" \"end\";")
		cs := &Case{Prop: "C19", Kind: "input", Sig: "input:percent-prompt", Program: prog}
		base := scriptCfg(prog, "yes\nno\n")
		cs.Runs = []Run{{Role: "line", Cfg: withDelivery(base, "line")}, {Role: "all", Cfg: withDelivery(base, "all")}}
		cs.ExpectStdout, cs.ExpectExit, cs.ExpectStderr = ptrS("50% done? %d %s %[yes]\n100%no\nend\n"), ptrI(0), "empty"
		out = append(out, cs)
	}
	// outcome classes, one error kind each at first/middle/last position
	for ek := 0; ek < len(c19Errors); ek++ {
		for pos := 0; pos < 3; pos++ {
			out = append(out, c19ClassCase(&tableSrc{ek: ek, pos: pos}, "sys"))
		}
	}
	return out
}

// tableSrc drives c19ClassCase deterministically for the systematic sweep.
type tableSrc struct{ ek, pos int }

func (t *tableSrc) Int(label string, lo, hi int) int {
	v := lo
	switch label {
	case "nlines":
		v = 4
	case "linekind":
		v = 0
	case "haserr":
		v = 1
	case "errkind":
		v = t.ek
	case "errpos":
		v = t.pos * 2
	case "second":
		v = 0
	case "delivery":
		v = 0
	}
	if v < lo {
		v = lo
	}
	if v > hi {
		v = hi
	}
	return v
}

// ---------------------------------------------------------------- ইনপুট scenarios

var c19LineTexts = []string{"hello", "a b", "কলম", "42", "x = 1;", "বই খাতা", "z", "qé", "€5",
	strings.Repeat("L", 4095), strings.Repeat("M", 4096), strings.Repeat("N", 4097), strings.Repeat("\u0995", 1400), strings.Repeat("w ", 4200) + "end", strings.Repeat("H", 70000)}
var c19Pads = []string{"", " ", "  ", "\t", " \t "}

func c19InputCase(k int, ls []string, finalNL bool, deliveries []string, extra []sim.Config, tag string) *Case {
	var prog []string
	var want strings.Builder
	stored := tag == "stored"
	if stored {
		// every line is read and kept first, printed only after the last read: a value
		// obtained earlier must not change when later input arrives
		if len(ls) > 0 && ls[len(ls)-1] == "" {
			finalNL = true
		}
		for i := 0; i < k; i++ {
			prog = append(prog, fmt.Sprintf("%s in%d = %s();", KwVar, i+1, FnInput))
		}
		for i := 0; i < k; i++ {
			prog = append(prog, fmt.Sprintf("%s %s + in%d + %s;", KwPrint, bstr("["), i+1, bstr("]")))
			fmt.Fprintf(&want, "[%s]\n", strings.Trim(ls[i], " \t\r"))
		}
		k = 0
	}
	if len(ls) > 0 && ls[len(ls)-1] == "" {
		finalNL = true // an empty last line only exists if it is terminated
	}
	for i := 0; i < k; i++ {
		prog = append(prog, fmt.Sprintf("%s %s + %s(%s) + %s;", KwPrint, bstr("["), FnInput, bstr(fmt.Sprintf("p%d", i+1)), bstr("]")))
		fmt.Fprintf(&want, "p%d[%s]\n", i+1, strings.Trim(ls[i], " \t\r"))
	}
	prog = append(prog, KwPrint+" "+bstr("end")+";")
	want.WriteString("end\n")
	program := lines(prog...)
	if len(ls) > 0 && ls[len(ls)-1] == "" {
		finalNL = true // an empty last line only exists if it is terminated
	}
	stdin := strings.Join(ls, "\n")
	if len(ls) > 0 && finalNL {
		stdin += "\n"
	}
	cs := &Case{Prop: "C19", Kind: "input", Program: program}
	nl := 0
	if finalNL {
		nl = 1
	}
	cs.Sig = fmt.Sprintf("input:calls=%d,lines=%d,finalnl=%d", k, len(ls), nl)
	if stored {
		cs.Sig = fmt.Sprintf("input-stored:lines=%d,finalnl=%d", len(ls), nl)
	}
	if k == len(ls) && !finalNL && !stored {
		cs.Sig += ",lastline-unterminated"
	}
	base := scriptCfg(program, stdin)
	for _, d := range deliveries {
		cs.Runs = append(cs.Runs, Run{Role: d, Cfg: withDelivery(base, d)})
	}
	for i, e := range extra {
		cs.Runs = append(cs.Runs, Run{Role: fmt.Sprintf("cuts%d", i), Cfg: e})
	}
	cs.ExpectStdout, cs.ExpectExit, cs.ExpectStderr = ptrS(want.String()), ptrI(0), "empty"
	cs.Notes = []string{tag}
	return cs
}

func c19DrawLines(s Src, n int) []string {
	ls := make([]string, n)
	for i := range ls {
		if Chance(s, "emptyline", 1, 8) {
			ls[i] = Pick(s, "pad", c19Pads)
			continue
		}
		ti := s.Int("text", 0, len(c19LineTexts)+8)
		if ti >= len(c19LineTexts) {
			ti %= 9 // short texts are the common case
		}
		ls[i] = Pick(s, "padl", c19Pads) + c19LineTexts[ti] + Pick(s, "padr", c19Pads)
		if Chance(s, "cr", 1, 6) {
			ls[i] += "\r"
		}
	}
	return ls
}

// ---------------------------------------------------------------- outcome classes

type c19Err struct {
	name  string
	class string // lex | syn | rt
	text  string
	last  bool // must be the last line (swallows what follows)
}

var c19Errors = []c19Err{
	{"stray-at", "lex", "@", false},
	{"stray-hash", "lex", KwPrint + " 1 # 2;", false},
	{"stray-dollar", "lex", "$", false},
	{"unterminated-string", "lex", KwVar + " s = \"abc", true},
	{"unterminated-comment", "lex", "/* never closed", true},
	{"unterminated-comment-slash", "lex", "/*/ looks closed", true},
	{"unterminated-comment-star", "lex", "/* almost *", true},
	{"unterminated-comment-bare", "lex", "/*/", true},
	{"unterminated-string-backslash", "lex", KwPrint + " \"C:\\tmp\\", true},
	{"stray-backslash", "lex", KwPrint + " 1 \\ 2;", false},
	{"unterminated-string-nul", "lex", KwPrint + " \"abc\x00;", true},
	{"stray-nul", "lex", KwPrint + " 1 \x00;", false},
	{"stray-question", "lex", "?", false},
	{"stray-rupee-sign", "lex", KwPrint + " \u09f3;", false},
	{"stray-rupee-mark-ident", "lex", KwVar + " \u09f2 = 5;", false},
	{"stray-currency-numerator", "lex", "\u09f4 + 1;", false},
	{"stray-euro", "lex", KwPrint + " \u20ac5;", false},
	{"number-too-large", "lex", KwPrint + " 1" + strings.Repeat("0", 400) + ";", false},
	{"number-too-large-bangla", "lex", KwVar + " big = \u09e7" + strings.Repeat("\u09e6", 330) + ".5;", false},
	{"missing-name", "syn", KwVar + " = 5;", false},
	{"missing-operand", "syn", KwPrint + " (1 + ;", false},
	{"missing-semicolon-lenient", "syn", KwPrint + " 1 " + KwPrint + " 2;", false},
	{"dangling-operator", "syn", "1 +;", false},
	{"missing-parens", "syn", KwIf + " " + KwTrue + " " + KwPrint + " 1;", false},
	{"unclosed-block", "syn", "{", true},
	{"unclosed-paren-call", "syn", FnLen + "([1];", false},
	{"bad-function", "syn", KwFun + " () { }", false},
	{"else-without-if", "syn", KwElse + " " + KwPrint + " 1;", false},
	{"undefined-name", "rt", KwPrint + " nx;", false},
	{"undefined-assign", "rt", "nx = 1;", false},
	{"undefined-assign-nested", "rt", "{ " + KwIf + " (" + KwTrue + ") { nx = 1; } }", false},
	{"redeclaration", "rt", KwVar + " dup = 1; " + KwVar + " dup = 2;", false},
	{"missing-property", "rt", KwPrint + " ({a: 1}).b;", false},
	{"stray-return", "rt", KwReturn + " 1;", false},
	{"negative-shift", "rt", KwPrint + " 1 << -1;", false},
	{"zero-divisor", "rt", KwVar + " zz = 1 / 0;", false},
	{"bad-index", "rt", KwPrint + " [1][3];", false},
	{"failing-builtin", "rt", FnLen + "(5);", false},
	{"type-mismatch", "rt", "nil + 1;", false},
	{"stray-break", "rt", KwBreak + ";", false},
	{"not-callable", "rt", "5();", false},
	{"arity", "rt", FnLen + "();", false},
}

// valid lines with unusual lexical shapes: comment forms, strings holding
// comment markers or backslashes, Bangla digits, odd spacing
var c19Fancy = []struct{ text, out string }{
	{"/*/ banner /*/", ""},
	{"/**/", ""},
	{"/***/", ""},
	{"/* * / */", ""},
	{"/* // */ " + KwPrint + " \"tc\";", "tc\n"},
	{"// /* not an opening", ""},
	{KwPrint + " \"a // not a comment\";", "a // not a comment\n"},
	{KwPrint + " \"/* x */\";", "/* x */\n"},
	{KwPrint + " 1; // trailing comment", "1\n"},
	{KwPrint + " \"back\\slash\";", "back\\slash\n"},
	{KwPrint + " \"q\\\";", "q\\\n"},
	{KwPrint + " \u09e7\u09e8;", "12\n"},
	{KwPrint + " \u09e7.\u09eb;", "1.5\n"},
	{KwPrint + "   \"sp\"   ;", "sp\n"},
	{"\t" + KwPrint + " \"tab\";\t", "tab\n"},
	{KwPrint + " \"a\"; " + KwPrint + " \"b\";", "a\nb\n"},
	{KwPrint + " \"@#$\";", "@#$\n"},
	{"{ " + KwPrint + " \"blk\"; }", "blk\n"},
	{KwPrint + " \"a\x00b\";", "a\x00b\n"},
	{KwPrint + " \"\x00\";", "\x00\n"},
	{";", "\x00"}, // placeholder, removed below (a lone ';' is not a statement)
}

func c19ClassCase(s Src, tag string) *Case {
	n := s.Int("nlines", 1, 7)
	type ln struct {
		text, out string
		input   bool
	}
	var body []ln
	nin := 0
	for i := 0; i < n; i++ {
		switch s.Int("linekind", 0, 5) {
		case 4, 5:
			f := c19Fancy[s.Int("fancy", 0, len(c19Fancy)-2)]
			body = append(body, ln{text: f.text, out: f.out})
		case 0, 1:
			body = append(body, ln{text: fmt.Sprintf("%s %s;", KwPrint, bstr(fmt.Sprintf("t%d", i))), out: fmt.Sprintf("t%d\n", i)})
		case 2:
			nin++
			body = append(body, ln{text: fmt.Sprintf("%s %s + %s(%s) + %s;", KwPrint, bstr("["), FnInput, bstr(fmt.Sprintf("p%d", nin)), bstr("]")), out: fmt.Sprintf("p%d[in%d]\n", nin, nin), input: true})
		default:
			body = append(body, ln{text: fmt.Sprintf("%s c%d = %s();", KwVar, i, FnClock)})
		}
	}
	class := "clean"
	errName := ""
	errIdx := -1
	rtIdx := -1
	if Bool(s, "haserr") {
		e := c19Errors[s.Int("errkind", 0, len(c19Errors)-1)]
		pos := s.Int("errpos", 0, len(body))
		if e.last {
			pos = len(body)
		}
		body = append(body[:pos], append([]ln{{text: e.text}}, body[pos:]...)...)
		class, errName, errIdx = e.class, e.name, pos
		if e.class == "rt" {
			rtIdx = pos
			// optionally also a front-end error later in the text: then nothing runs at all
			if Bool(s, "second") {
				e2 := c19Errors[s.Int("errkind2", 0, 27)]
				body = append(body, ln{text: e2.text})
				class = e2.class
				errName += "+" + e2.name
				rtIdx = -1
			}
		}
	}
	var prog []string
	var want strings.Builder
	var stdin strings.Builder
	for i := 1; i <= nin+1; i++ {
		fmt.Fprintf(&stdin, "in%d\n", i)
	}
	for i, l := range body {
		prog = append(prog, l.text)
		if class == "clean" || (class == "rt" && i < rtIdx) {
			want.WriteString(l.out)
		}
	}
	program := lines(prog...)
	where := "none"
	if errIdx >= 0 {
		switch {
		case errIdx == 0:
			where = "first"
		case errIdx == len(body)-1:
			where = "last"
		default:
			where = "middle"
		}
	}
	cs := &Case{Prop: "C19", Kind: "class", Sig: fmt.Sprintf("class:%s:%s@%s", class, errName, where), Program: program, Notes: []string{tag}}
	base := scriptCfg(program, stdin.String())
	base.TTY = drawTTY(s)
	c1, d1 := drawDelivery(s, base)
	cs.Runs = []Run{{Role: "line", Cfg: withDelivery(base, "line")}}
	if nin > 0 {
		cs.Runs = append(cs.Runs, Run{Role: d1, Cfg: c1}, Run{Role: "all", Cfg: withDelivery(base, "all")})
	}
	switch class {
	case "clean":
		cs.ExpectExit, cs.ExpectStderr = ptrI(0), "empty"
	case "lex", "syn":
		cs.ExpectExit, cs.ExpectStderr, cs.ExpectNoRun = ptrI(65), "nonempty", true
	case "rt":
		cs.ExpectExit, cs.ExpectStderr = ptrI(70), "nonempty"
	}
	cs.ExpectStdout = ptrS(want.String())
	return cs
}

// ---------------------------------------------------------------- random cases

// c19GrammarCase: a syntactically valid program straight from the grammar, using
// ইনপুট in arbitrary ways, under several deliveries of the same stdin bytes. No
// prediction: only what C19 states for every valid program.
func c19GrammarCase(s Src) *Case {
	if Chance(s, "valid", 1, 3) {
		// a program that is valid by construction (validprog.go): status 0, empty stderr,
		// the same under every delivery of its input
		prog, inputs := validProgram(s)
		var stdin strings.Builder
		for i := 0; i < inputs+1; i++ {
			stdin.WriteString(Pick(s, "padl", c19Pads) + Pick(s, "text", []string{"hello", "0", "12", "a b", "কলম", "", "x"}) + Pick(s, "padr", c19Pads) + "\n")
		}
		cs := &Case{Prop: "C19", Kind: "grammar", Sig: "valid-by-construction", Program: prog}
		base := scriptCfg(prog, stdin.String())
		base.Budget = 30000000
		base.TTY = drawTTY(s)
		cs.Runs = []Run{{Role: "line", Cfg: withDelivery(base, "line")}}
		if inputs > 0 {
			c, d := drawDelivery(s, base)
			cs.Runs = append(cs.Runs, Run{Role: "all", Cfg: withDelivery(base, "all")}, Run{Role: d, Cfg: c})
		}
		cs.ExpectExit, cs.ExpectStderr = ptrI(0), "empty"
		return cs
	}
	prog := randomEffectfulProgram(s)
	var stdin strings.Builder
	n := s.Int("nstdin", 0, 12)
	for i := 0; i < n; i++ {
		stdin.WriteString(Pick(s, "padl", c19Pads) + Pick(s, "text", []string{"hello", "0", "12", "a b", "কলম", "", "x"}) + Pick(s, "padr", c19Pads) + "\n")
	}
	cs := &Case{Prop: "C19", Kind: "grammar", Sig: "grammar", Program: prog}
	base := scriptCfg(prog, stdin.String())
	base.TTY = drawTTY(s)
	cs.Runs = []Run{{Role: "line", Cfg: withDelivery(base, "line")}, {Role: "all", Cfg: withDelivery(base, "all")}, {Role: "byte", Cfg: withDelivery(base, "byte")}}
	c, d := drawDelivery(s, base)
	cs.Runs = append(cs.Runs, Run{Role: d, Cfg: c})
	return cs
}

func c19Random(s Src, tier string) *Case { return applySched(s, c19Random1(s, tier), false) }

func c19Random1(s Src, tier string) *Case {
	if Chance(s, "grammar", 1, 5) {
		return c19GrammarCase(s)
	}
	switch s.Int("family", 0, 9) {
	case 0, 1, 2:
		return c19ClassCase(s, "rnd")
	case 3:
		return c19FaultCase(s)
	default:
		k := s.Int("calls", 0, 4)
		n := k + s.Int("spare", 0, 2)
		ls := c19DrawLines(s, n)
		finalNL := !Chance(s, "nofinalnl", 1, 3)
		if n == 0 {
			finalNL = true
		}
		tagv := "rnd"
		if k >= 2 && Chance(s, "stored", 1, 3) {
			tagv = "stored"
		}
		cs := c19InputCase(k, ls, finalNL, []string{"line", "all", "byte"}, nil, tagv)
		base := cs.Runs[0].Cfg
		m := s.Int("ncuts", 1, 4)
		for i := 0; i < m; i++ {
			c, _ := drawDelivery(s, base)
			cs.Runs = append(cs.Runs, Run{Role: fmt.Sprintf("cuts%d", i), Cfg: c})
		}
		return cs
	}
}

// c19FaultCase: environment-injected faults, conditional oracle (relaxed on
// purpose and run as its own family so the relaxation hides nothing else).
func c19FaultCase(s Src) *Case {
	k := s.Int("calls", 1, 4)
	ls := c19DrawLines(s, k)
	for i := range ls {
		if strings.Trim(ls[i], " \t\r") == "" {
			ls[i] = "w" + ls[i]
		}
	}
	full := c19InputCase(k, ls, true, []string{"line"}, nil, "fault")
	cs := &Case{Prop: "C19", Kind: "inputfault", Program: full.Program}
	base := full.Runs[0].Cfg
	stdin := string(base.Stdin)
	fullOut := *full.ExpectStdout
	if Bool(s, "eio") {
		// EIO somewhere inside line j (0-based): lines before j are delivered in full
		j := s.Int("faultline", 0, k-1)
		start := 0
		for i := 0; i < j; i++ {
			start += len(ls[i]) + 1
		}
		off := start + s.Int("faultoff", 0, len(ls[j]))
		c := base
		c.StdinErrAt = off
		c.StdinErrSticky = Bool(s, "sticky")
		c, d := drawDelivery(s, c)
		cs.Runs = []Run{{Role: "eio:" + d, Cfg: c}}
		cs.RelaxedFault = "eio"
		cs.Sig = fmt.Sprintf("inputfault:eio,sticky=%v", c.StdinErrSticky)
		pre := ""
		for i := 0; i < j; i++ {
			pre += fmt.Sprintf("p%d[%s]\n", i+1, strings.Trim(ls[i], " \t\r"))
		}
		cs.Aux = &Aux{C19: &C19Expect{FullStdout: fullOut, MinPrefix: pre}}
	} else {
		// early EOF: only j < k lines present
		j := s.Int("present", 0, k-1)
		short := strings.Join(ls[:j], "\n")
		if j > 0 {
			short += "\n"
		}
		_ = stdin
		c := base
		c.Stdin = []byte(short)
		c, d := drawDelivery(s, c)
		cs.Runs = []Run{{Role: "eof:" + d, Cfg: c}}
		cs.RelaxedFault = "eof"
		cs.Sig = "inputfault:eof"
		pre := ""
		for i := 0; i < j; i++ {
			pre += fmt.Sprintf("p%d[%s]\n", i+1, strings.Trim(ls[i], " \t\r"))
		}
		cs.Aux = &Aux{C19: &C19Expect{MinPrefix: pre}}
	}
	return cs
}

// ---------------------------------------------------------------- oracle

func c19Eval(cs *Case, ctx *EvalCtx) []Violation {
	obs := ctx.RunAll(cs)
	var vs []Violation
	add := func(run int, class, msg string) {
		if len(msg) > 700 {
			msg = msg[:400] + " ... " + msg[len(msg)-250:]
		}
		vs = append(vs, Violation{Prop: "C19", Class: "C19/" + class, Sig: cs.Sig, Msg: msg, Run: run})
	}
	var ax C19Expect
	if cs.Aux != nil && cs.Aux.C19 != nil {
		ax = *cs.Aux.C19
	}
	for i, o := range obs {
		role := cs.Runs[i].Role
		if o.Res.Panic != "" {
			add(i, "host-panic", fmt.Sprintf("[%s] the interpreter panicked: %s", role, o.Res.Panic))
			continue
		}
		if o.Res.Budget {
			add(i, "no-termination", fmt.Sprintf("[%s] step budget exceeded", role))
			continue
		}
		st := o.ExitStatus()
		if (st == 0) != (o.Stderr == "") {
			add(i, "stderr-status-mismatch", fmt.Sprintf("[%s] status %d but stderr=%q", role, st, o.Stderr))
		}
		if cs.RelaxedFault != "" {
			c19Relaxed(cs, i, o, ax, add)
			continue
		}
		if cs.Kind == "grammar" && st != 0 && st != 70 {
			// (what ইনপুট does once stdin is exhausted is unspecified, but it is either fine or a runtime error)
			add(i, "exit-status", fmt.Sprintf("[%s] a syntactically valid program ended with status %d (stderr=%q)", role, st, clip(o.Stderr)))
		}
		if cs.ExpectExit != nil && st != *cs.ExpectExit {
			add(i, "exit-status", fmt.Sprintf("[%s] exit status %d, expected %d (stderr=%q)", role, st, *cs.ExpectExit, o.Stderr))
		}
		if ax.ExitNonZero && st == 0 {
			add(i, "exit-status", fmt.Sprintf("[%s] unreadable file but exit status 0", role))
		}
		if ax.NeedMessage && o.Stderr == "" {
			if o.Stdout != "" {
				add(i, "diagnostic-on-stdout", fmt.Sprintf("[%s] the message went to stdout: %q", role, o.Stdout))
			} else {
				add(i, "no-message", fmt.Sprintf("[%s] no message written", role))
			}
		}
		if cs.ExpectNoRun {
			for _, e := range o.Res.Events {
				// (reading the clock is not "executing something": an implementation may note its start-up time)
				if e.Kind == "READ" || e.Kind == "BUILTIN" || (e.Kind == "OUT" && !ax.NeedMessage) {
					add(i, "ran-something", fmt.Sprintf("[%s] nothing may execute, but saw event %s %q", role, e.Kind, e.Data))
					break
				}
			}
		}
		if cs.ExpectStdout != nil && o.Stdout != *cs.ExpectStdout && !(ax.NeedMessage && o.Stderr == "") {
			cl := "stdout-mismatch"
			if cs.Kind == "input" {
				cl = "input-line-mismatch"
			}
			add(i, cl, fmt.Sprintf("[%s] stdout=%q expected %q (stderr=%q)", role, o.Stdout, *cs.ExpectStdout, o.Stderr))
		}
		if ax.NeedMessage && o.Stderr != "" && o.Stdout != "" {
			add(i, "diagnostic-on-stdout", fmt.Sprintf("[%s] stdout must stay empty, got %q", role, o.Stdout))
		}
		if cs.ExpectStderr == "empty" && o.Stderr != "" {
			add(i, "unexpected-diagnostic", fmt.Sprintf("[%s] stderr=%q", role, o.Stderr))
		}
		if cs.ExpectStderr == "nonempty" && o.Stderr == "" {
			add(i, "missing-diagnostic", fmt.Sprintf("[%s] no diagnostic on stderr (stdout=%q)", role, o.Stdout))
		}
	}
	// invariance under the delivery schedule: needs no prediction at all
	if cs.RelaxedFault == "" {
		for i := 1; i < len(obs); i++ {
			a, b := obs[0], obs[i]
			if a.Stdout != b.Stdout || a.ExitStatus() != b.ExitStatus() || a.Stderr != b.Stderr {
				vs = append(vs, Violation{Prop: "C19", Class: "C19/delivery-dependent", Sig: cs.Sig, Run: -1,
					Msg: fmt.Sprintf("same bytes on stdin, different delivery: [%s] exit=%d stdout=%q stderr=%q vs [%s] exit=%d stdout=%q stderr=%q",
						cs.Runs[0].Role, a.ExitStatus(), a.Stdout, a.Stderr, cs.Runs[i].Role, b.ExitStatus(), b.Stdout, b.Stderr)})
				break
			}
		}
	}
	if ctx.Stats != nil {
		c19Measure(cs, ctx)
	}
	return vs
}

func c19Relaxed(cs *Case, i int, o Obs, ax C19Expect, add func(int, string, string)) {
	role := cs.Runs[i].Role
	st := o.ExitStatus()
	if !strings.HasPrefix(o.Stdout, ax.MinPrefix) {
		add(i, "fault-lost-delivered-line", fmt.Sprintf("[%s] lines delivered before the fault must be returned intact: stdout=%q, expected prefix %q", role, o.Stdout, ax.MinPrefix))
	}
	if o.FirstErr >= 0 {
		if st != 70 {
			add(i, "fault-exit-status", fmt.Sprintf("[%s] diagnostic written but status %d", role, st))
		}
		for _, e := range o.Res.Events {
			if e.Seq > o.FirstErr && (e.Kind == "OUT" || e.Kind == "READ" || e.Kind == "BUILTIN") {
				add(i, "fault-continues-after-error", fmt.Sprintf("[%s] after the diagnostic %q came event %s %q", role, o.Stderr, e.Kind, e.Data))
				break
			}
		}
	} else if st != 0 {
		add(i, "fault-exit-status", fmt.Sprintf("[%s] no diagnostic but status %d", role, st))
	}
	if cs.RelaxedFault == "eio" && !strings.HasPrefix(ax.FullStdout, o.Stdout) {
		add(i, "fault-truncated-line", fmt.Sprintf("[%s] a line cut short by a read error was used as if complete: stdout=%q, full=%q", role, o.Stdout, ax.FullStdout))
	}
}

func c19Measure(cs *Case, ctx *EvalCtx) {
	st := ctx.Stats
	st.Count("kind."+cs.Kind, 1)
	for i, r := range cs.Runs {
		if i >= len(ctx.Results) {
			break
		}
		res := ctx.Results[i]
		// chunk-boundary pattern relative to line boundaries
		var b strings.Builder
		for _, e := range res.Events {
			if e.Kind != "READ" {
				continue
			}
			switch {
			case e.N == -1:
				b.WriteByte('E')
			case e.N == -2:
				b.WriteByte('X')
			case e.N == 0:
				b.WriteByte('0')
			default:
				nl := strings.Count(e.Data, "\n")
				end := strings.HasSuffix(e.Data, "\n")
				switch {
				case nl == 0:
					b.WriteByte('p') // partial line
				case nl == 1 && end:
					b.WriteByte('L')
				case end:
					b.WriteByte('M') // several whole lines
				default:
					b.WriteByte('m') // lines plus a partial one
				}
			}
		}
		pat := b.String()
		if len(pat) > 24 {
			pat = pat[:24]
		}
		trivial := cs.Kind != "argv" && (r.Role == "line") && !strings.ContainsAny(pat, "pMmX0")
		if !trivial {
			st.Seen("c19_tuples", cs.Sig+"|"+r.Role+"|"+pat)
		}
		if cs.RelaxedFault == "eof" {
			st.Count("fault.stdin_early_eof_runs", 1)
		}
	}
	if cs.Kind == "argv" {
		st.Count("fault.argv_or_file_fault_cases", 1)
	}
}
