// bornosim: deterministic simulation harness for the instrumented Borno CLI.
//
//	bornosim check  <ID> <quick|thorough>      driver (spawns workers, writes evidence)
//	bornosim worker <ID> <tier> <i> <W> <seed> <out.json>
//	bornosim replay <file>                     re-evaluate a replay file (fresh process)
//	bornosim one                               run one sim.Config from stdin, print the Result
//
// Exit status of check: 0 held, 1 violation (VIOLATION line printed), 2 harness trouble.
package main

import (
	"encoding/json"
	"flag"
	"fmt"
	"io"
	"os"
	"os/exec"
	"path/filepath"
	"regexp"
	"runtime"
	"runtime/debug"
	"runtime/pprof"
	"sort"
	"strconv"
	"strings"
	"testing"
	"time"

	sim "github.com/ah-naf/borno/verifsimrt"
	"pgregory.net/rapid"
)

func fatal2(format string, a ...interface{}) {
	fmt.Fprintf(os.Stderr, "bornosim: "+format+"\n", a...)
	os.Exit(2)
}

func verifDir() string {
	if d := os.Getenv("VERIF_DIR"); d != "" {
		return d
	}
	return "/verif"
}

func main() {
	// (the Go default stack limit of 1 GB is kept so that the simulated CLI overflows where the real one would)
	if len(os.Args) < 2 {
		fatal2("usage: bornosim check|worker|replay|one ...")
	}
	switch os.Args[1] {
	case "check":
		if len(os.Args) != 4 {
			fatal2("usage: bornosim check <ID> <tier>")
		}
		os.Exit(driver(os.Args[2], os.Args[3]))
	case "worker":
		if len(os.Args) != 8 {
			fatal2("usage: bornosim worker <ID> <tier> <i> <W> <seed> <out>")
		}
		i, _ := strconv.Atoi(os.Args[4])
		w, _ := strconv.Atoi(os.Args[5])
		seed, _ := strconv.ParseInt(os.Args[6], 10, 64)
		worker(os.Args[2], os.Args[3], i, w, seed, os.Args[7])
	case "replay":
		if len(os.Args) != 3 {
			fatal2("usage: bornosim replay <file>")
		}
		os.Exit(replay(os.Args[2], true))
	case "one":
		var cfg sim.Config
		if err := json.NewDecoder(os.Stdin).Decode(&cfg); err != nil {
			fatal2("one: %v", err)
		}
		if os.Getenv("VERIF_STACK_X2") != "" {
			debug.SetMaxStack(2 << 30) // see execFresh
		}
		res := Exec(cfg)
		json.NewEncoder(os.Stdout).Encode(res)
	default:
		fatal2("unknown subcommand %q", os.Args[1])
	}
}

// ---------------------------------------------------------------- known findings

type KnownFinding struct {
	Property string `json:"property"`
	Class    string `json:"class"`
	Sig      string `json:"sig"` // regular expression on Violation.Sig
	What     string `json:"what"`
	re       *regexp.Regexp
}

type KnownFile struct {
	Findings []KnownFinding `json:"findings"`
	Fixed    []string       `json:"fixed"`
}

func loadKnown() []KnownFinding {
	b, err := os.ReadFile(filepath.Join(verifDir(), "known_findings.json"))
	if err != nil {
		if os.IsNotExist(err) {
			return nil
		}
		fatal2("known_findings.json: %v", err)
	}
	var kf KnownFile
	if err := json.Unmarshal(b, &kf); err != nil {
		fatal2("known_findings.json: %v", err)
	}
	for i := range kf.Findings {
		re, err := regexp.Compile("^(?:" + kf.Findings[i].Sig + ")$")
		if err != nil {
			fatal2("known_findings.json: bad sig regexp %q: %v", kf.Findings[i].Sig, err)
		}
		kf.Findings[i].re = re
	}
	return kf.Findings
}

func matchKnown(known []KnownFinding, v Violation) int {
	for i, k := range known {
		if k.Property == v.Prop && k.Class == v.Class && k.re.MatchString(v.Sig) {
			return i
		}
	}
	return -1
}

// ---------------------------------------------------------------- worker

type Failure struct {
	Violation Violation `json:"violation"`
	Case      *Case     `json:"case"`
	Digest    string    `json:"digest"`
	Seed      int64     `json:"seed"`
	Shrunk    bool      `json:"shrunk"`
}

type WorkerOut struct {
	Stats     *Stats         `json:"stats"`
	Failures  []Failure      `json:"failures"`
	KnownHits map[int]int64  `json:"known_hits"`
	KnownEx   map[int]string `json:"known_examples"`
	Elapsed   float64        `json:"elapsed_s"`
	Random    int64          `json:"random_cases"`
	System    int64          `json:"systematic_cases"`
}

type rapidSrc struct{ t *rapid.T }

func (r rapidSrc) Int(label string, lo, hi int) int {
	if lo >= hi {
		return lo
	}
	return rapid.IntRange(lo, hi).Draw(r.t, label)
}

type quietTB struct {
	failed bool
	logs   []string
}

func (q *quietTB) Helper()                       {}
func (q *quietTB) Name() string                  { return "bornosim" }
func (q *quietTB) Logf(format string, a ...any)  {}
func (q *quietTB) Log(a ...any)                  {}
func (q *quietTB) Skipf(format string, a ...any) {}
func (q *quietTB) Skip(a ...any)                 {}
func (q *quietTB) SkipNow()                      {}
func (q *quietTB) Errorf(format string, a ...any) {
	q.failed = true
	q.logs = append(q.logs, fmt.Sprintf(format, a...))
}
func (q *quietTB) Error(a ...any) { q.failed = true; q.logs = append(q.logs, fmt.Sprint(a...)) }
func (q *quietTB) Fatalf(format string, a ...any) {
	q.failed = true
	q.logs = append(q.logs, fmt.Sprintf(format, a...))
}
func (q *quietTB) Fatal(a ...any) { q.failed = true; q.logs = append(q.logs, fmt.Sprint(a...)) }
func (q *quietTB) FailNow()       { q.failed = true }
func (q *quietTB) Fail()          { q.failed = true }
func (q *quietTB) Failed() bool   { return q.failed }

func worker(id, tier string, idx, W int, seed int64, out string) {
	prop := properties[id]
	if prop == nil {
		fatal2("unknown property %s", id)
	}
	known := loadKnown()
	start := time.Now()
	if pf := os.Getenv("VERIF_CPUPROFILE"); pf != "" { // development aid
		if f, err := os.Create(fmt.Sprintf("%s.%d", pf, idx)); err == nil {
			pprof.StartCPUProfile(f)
			defer pprof.StopCPUProfile()
		}
	}
	if os.Getenv("VERIF_STACK_X2") != "" {
		debug.SetMaxStack(2 << 30) // see triage in driver
	}
	wo := &WorkerOut{Stats: NewStats(), KnownHits: map[int]int64{}, KnownEx: map[int]string{}}
	ctx := &EvalCtx{Stats: wo.Stats}

	// optional event log for the determinism self-proof (tools/determinism.sh):
	// one line per evaluated case = hash of the case + digest of every history
	var dlog *os.File
	if p := os.Getenv("VERIF_DIGEST_LOG"); p != "" {
		f, err := os.Create(fmt.Sprintf("%s.%d", p, idx))
		if err != nil {
			fatal2("%v", err)
		}
		dlog = f
		defer f.Close()
	}
	// evaluate returns the violations not covered by a known finding
	track := os.Getenv("VERIF_TRACK_CASE") // crash triage: the case about to run is left in this file
	evaluate := func(cs *Case, st *Stats) []Violation {
		ctx.Stats = st
		if track != "" {
			cj, _ := json.Marshal(cs)
			os.WriteFile(track, cj, 0o644)
		}
		vs := prop.Eval(cs, ctx)
		if dlog != nil && st != nil {
			cj, _ := json.Marshal(cs)
			fmt.Fprintf(dlog, "%016x %s %d\n", hash64(string(cj)), digestResults(ctx.Results), len(vs))
		}
		var unknown []Violation
		for _, v := range vs {
			if k := matchKnown(known, v); k >= 0 {
				if st != nil {
					wo.KnownHits[k]++
					if _, ok := wo.KnownEx[k]; !ok {
						wo.KnownEx[k] = v.Sig + ": " + v.Msg
					}
				}
				continue
			}
			unknown = append(unknown, v)
		}
		return unknown
	}

	seenFail := map[string]bool{}
	addFailure := func(cs *Case, v Violation, shrunk bool) {
		if seenFail[v.Key()] {
			return
		}
		seenFail[v.Key()] = true
		c2 := *cs
		wo.Failures = append(wo.Failures, Failure{Violation: v, Case: &c2, Digest: digestResults(ctx.Results), Seed: seed, Shrunk: shrunk})
	}

	// sameViolation re-evaluates a candidate (no statistics) and looks for the class being minimised
	sameViolation := func(cs *Case, class string) (Violation, bool) {
		for _, v := range evaluate(cs, nil) {
			if v.Class == class {
				return v, true
			}
		}
		return Violation{}, false
	}

	// 1. systematic share
	if prop.Systematic != nil {
		for n, cs := range prop.Systematic(tier) {
			if n%W != idx {
				continue
			}
			wo.System++
			wo.Stats.Cases++
			vs := evaluate(cs, wo.Stats)
			wo.Stats.Sample(sampleOf(cs), 3)
			for _, v := range vs {
				if len(wo.Failures) < 8 && !seenFail[v.Key()] {
					mc, mv, shrunk := cs, v, false
					if cs.regen != nil {
						mc, mv, shrunk = minimiseDraws(cs, v, sameViolation)
					}
					if pc, pv, ok := pruneSchedules(prop, mc, mv, sameViolation); ok {
						mc, mv, shrunk = pc, pv, true
					}
					sameViolation(mc, mv.Class) // leave ctx.Results describing the minimised case
					addFailure(mc, mv, shrunk)
					seenFail[v.Key()] = true
				}
			}
		}
	}

	// 2. random share, rapid as the sole choice source
	if prop.Random != nil && prop.RandomCount != nil {
		total := prop.RandomCount(tier)
		n := total / W
		if idx < total%W {
			n++
		}
		if n > 0 {
			testing.Init()
			flag.CommandLine.Parse(nil)
			// rapid looks for fail files of earlier runs under ./testdata/rapid and replays them
			// first; a worker's exploration must depend on nothing but its seed
			if err := os.Chdir(filepath.Dir(out)); err != nil {
				fatal2("%v", err)
			}
			for _, kv := range [][2]string{{"rapid.checks", strconv.Itoa(n)}, {"rapid.seed", strconv.FormatInt(seed, 10)}, {"rapid.nofailfile", "true"}, {"rapid.shrinktime", "20s"}} {
				if err := flag.Set(kv[0], kv[1]); err != nil {
					fatal2("cannot configure rapid: %v", err)
				}
			}
			wantClass := ""
			var lastCase *Case
			var lastV Violation
			var lastDigest string
			shrinking := false
			tb := &quietTB{}
			rapid.Check(tb, func(t *rapid.T) {
				cs := prop.Random(rapidSrc{t}, tier)
				st := wo.Stats
				if shrinking {
					st = nil // statistics describe the search, not the minimisation
				} else {
					wo.Random++
					st.Cases++
					if wo.Random%50 == 1 {
						st.Sample(sampleOf(cs), 6)
					}
				}
				vs := evaluate(cs, st)
				ctx.Stats = wo.Stats
				if len(vs) == 0 {
					return
				}
				var pick *Violation
				for i := range vs {
					if wantClass == "" || vs[i].Class == wantClass {
						pick = &vs[i]
						break
					}
				}
				if pick == nil {
					return // a different violation class: not the one being minimised
				}
				wantClass = pick.Class
				shrinking = true
				c2 := *cs
				lastCase, lastV, lastDigest = &c2, *pick, digestResults(ctx.Results)
				t.Fatalf("%s", pick.Class)
			})
			if lastCase != nil {
				if pc, pv, ok := pruneSchedules(prop, lastCase, lastV, sameViolation); ok {
					lastCase, lastV = pc, pv
				}
				if _, ok := sameViolation(lastCase, lastV.Class); ok {
					lastDigest = digestResults(ctx.Results)
				}
				if !seenFail[lastV.Key()] {
					seenFail[lastV.Key()] = true
					wo.Failures = append(wo.Failures, Failure{Violation: lastV, Case: lastCase, Digest: lastDigest, Seed: seed, Shrunk: true})
				}
			} else if tb.failed {
				fatal2("rapid reported a failure without a violation: %v", tb.logs)
			}
		}
	}

	wo.Elapsed = time.Since(start).Seconds()
	wo.Stats.Finish()
	b, err := json.Marshal(wo)
	if err != nil {
		fatal2("marshal: %v", err)
	}
	if err := os.WriteFile(out, b, 0o644); err != nil {
		fatal2("%v", err)
	}
}

func sampleOf(cs *Case) map[string]interface{} {
	m := map[string]interface{}{"kind": cs.Kind, "sig": cs.Sig, "runs": len(cs.Runs)}
	if cs.Program != "" {
		m["program"] = clipN(cs.Program, 1500)
	}
	if len(cs.Runs) > 0 {
		c := cs.Runs[len(cs.Runs)-1].Cfg
		m["last_run"] = map[string]interface{}{
			"role": cs.Runs[len(cs.Runs)-1].Role, "args": c.Args, "stdin": clipN(string(c.Stdin), 600), "chunks": c.Chunks,
			"chunk_default": c.ChunkDefault, "stdin_err_at": c.StdinErrAt, "orders": c.Orders,
			"clock_start_ms": c.ClockStartMs, "clock_steps_ms": c.ClockStepsMs, "gc_ticks": c.GCTicks,
		}
	}
	return m
}

// ---------------------------------------------------------------- replay

type ReplayFile struct {
	Property string       `json:"property"`
	Class    string       `json:"class"`
	Sig      string       `json:"sig"`
	Message  string       `json:"message"`
	Seed     int64        `json:"seed"`
	Tier     string       `json:"tier"`
	Shrunk   bool         `json:"minimised_by_rapid"`
	Digest   string       `json:"history_digest"`
	Case     *Case        `json:"case"`
	History  []sim.Result `json:"history,omitempty"`
}

type ReplayOut struct {
	Violations []Violation `json:"violations"`
	Digest     string      `json:"digest"`
}

// replay re-evaluates a replay file in this (fresh) process. With human=true
// it prints a readable report and exits 1 if the recorded violation recurs.
func replay(path string, human bool) int {
	b, err := os.ReadFile(path)
	if err != nil {
		fatal2("%v", err)
	}
	var rf ReplayFile
	if err := json.Unmarshal(b, &rf); err != nil {
		fatal2("%s: %v", path, err)
	}
	prop := properties[rf.Property]
	if prop == nil {
		fatal2("unknown property %s", rf.Property)
	}
	ctx := &EvalCtx{}
	vs := prop.Eval(rf.Case, ctx)
	out := ReplayOut{Violations: vs, Digest: digestResults(ctx.Results)}
	if os.Getenv("VERIF_REPLAY_JSON") == "1" {
		json.NewEncoder(os.Stdout).Encode(out)
		return 0
	}
	same := false
	for _, v := range vs {
		if v.Class == rf.Class && v.Sig == rf.Sig {
			same = true
		}
	}
	fmt.Printf("replay %s: property=%s recorded class=%s sig=%q\n", path, rf.Property, rf.Class, rf.Sig)
	if rf.Case.Program != "" {
		fmt.Printf("--- program ---\n%s\n---------------\n", rf.Case.Program)
	}
	for i, r := range ctx.Results {
		o := Observe(r)
		fmt.Printf("run %d (%s): exit=%d returned=%v panic=%q budget=%v ticks=%d\n  stdout=%q\n  stderr=%q\n", i, rf.Case.Runs[i].Role, r.Exit, r.Returned, r.Panic, r.Budget, r.Ticks, o.Stdout, o.Stderr)
	}
	for _, v := range vs {
		fmt.Printf("violation: %s sig=%q run=%d: %s\n", v.Class, v.Sig, v.Run, v.Msg)
	}
	fmt.Printf("history digest now=%s recorded=%s\n", out.Digest, rf.Digest)
	if same {
		fmt.Printf("VIOLATION property=%s replay=%s\n", rf.Property, path)
		return 1
	}
	fmt.Println("the recorded violation does not occur on this tree")
	return 0
}

// ---------------------------------------------------------------- driver

func driver(id, tier string) int {
	prop := properties[id]
	if prop == nil {
		fatal2("unknown property %s", id)
	}
	if tier != "quick" && tier != "thorough" {
		fatal2("tier must be quick or thorough")
	}
	seed := int64(1)
	if s := os.Getenv("VERIF_SEED"); s != "" {
		v, err := strconv.ParseInt(s, 10, 64)
		if err != nil {
			fatal2("VERIF_SEED: %v", err)
		}
		seed = v
	}
	fmt.Printf("VERIF_SEED=%d property=%s tier=%s\n", seed, id, tier)
	W := runtime.NumCPU()
	if s := os.Getenv("VERIF_WORKERS"); s != "" {
		W, _ = strconv.Atoi(s)
	}
	if W < 1 {
		W = 1
	}
	start := time.Now()
	known := loadKnown()
	self, _ := os.Executable()
	tmp, err := os.MkdirTemp("", "bornosim-out-")
	if err != nil {
		fatal2("%v", err)
	}
	defer os.RemoveAll(tmp)

	// self-tests of the simulator first (exit 2 on failure)
	st := selfTests(id, tier, seed, self)

	type wres struct {
		out      *WorkerOut
		err      error
		log      string
		timedOut bool
	}
	results := make([]wres, W)
	done := make(chan int, W)
	limit := 40 * time.Minute
	if tier == "thorough" {
		limit = 5 * time.Hour
	}
	runWorker := func(i int, extraEnv ...string) wres {
		outFile := filepath.Join(tmp, fmt.Sprintf("w%d.json", i))
		os.Remove(outFile)
		ws := absSeed(seed)*1000 + int64(i) + 1
		cmd := exec.Command(self, "worker", id, tier, strconv.Itoa(i), strconv.Itoa(W), strconv.FormatInt(ws, 10), outFile)
		cmd.Env = append(append(os.Environ(), "GOMAXPROCS=2"), extraEnv...)
		var buf headTailBuf
		cmd.Stdout, cmd.Stderr = &buf, &buf
		if err := cmd.Start(); err != nil {
			return wres{err: err}
		}
		timedOut := false
		timer := time.AfterFunc(limit, func() { timedOut = true; cmd.Process.Kill() })
		err := cmd.Wait()
		timer.Stop()
		if err != nil {
			return wres{err: err, log: buf.String(), timedOut: timedOut}
		}
		b, err := os.ReadFile(outFile)
		if err != nil {
			return wres{err: err, log: buf.String()}
		}
		var wo WorkerOut
		if err := json.Unmarshal(b, &wo); err != nil {
			return wres{err: err}
		}
		return wres{out: &wo}
	}
	for i := 0; i < W; i++ {
		go func(i int) {
			defer func() { done <- i }()
			results[i] = runWorker(i)
		}(i)
	}
	for i := 0; i < W; i++ {
		<-done
	}
	total := NewStats()
	triaged := 0
	knownHits := map[int]int64{}
	knownEx := map[int]string{}
	var failures []Failure
	var nRandom, nSystem int64
	for i, r := range results {
		if r.err != nil {
			// A worker died. If it was the Go runtime that killed it (a fatal error such as
			// the goroutine stack ceiling, which nothing in the process can recover), the case
			// that did it is found by running the same worker again with case tracking — the
			// worker is deterministic — and is then judged with every run in a process of its
			// own, where the plain build of the tree settles whether the interpreter really
			// dies (execFresh). A violation found that way is reported; if the plain build
			// survives, the worker is run once more with twice the stack ceiling. Anything
			// else (watchdog, unreadable output, a crash that does not recur) is harness
			// trouble: exit 2.
			fmt.Fprintf(os.Stderr, "worker %d failed: %v\n%s\n", i, r.err, r.log)
			if r.timedOut {
				return 2
			}
			trackFile := filepath.Join(tmp, fmt.Sprintf("track%d.json", i))
			r2 := runWorker(i, "VERIF_TRACK_CASE="+trackFile)
			if r2.err == nil {
				fmt.Fprintf(os.Stderr, "worker %d: the crash did not recur\n", i)
				return 2
			}
			cj, err := os.ReadFile(trackFile)
			if err != nil {
				return 2
			}
			var cc Case
			if err := json.Unmarshal(cj, &cc); err != nil {
				return 2
			}
			cc.AllFresh = true
			rf := ReplayFile{Property: id, Class: "worker-crash", Sig: cc.Sig, Message: "this case killed the process it ran in", Seed: seed, Tier: tier, Case: &cc}
			dir := filepath.Join(verifDir(), "replays", id)
			os.MkdirAll(dir, 0o755)
			path := filepath.Join(dir, fmt.Sprintf("%d-crash-%016x.json", seed, hash64(string(cj))))
			b, _ := json.MarshalIndent(rf, "", " ")
			if err := os.WriteFile(path, b, 0o644); err != nil {
				fatal2("%v", err)
			}
			cmd := exec.Command(self, "replay", path)
			cmd.Env = append(os.Environ(), "VERIF_REPLAY_JSON=1")
			outb, err := cmd.Output()
			if err != nil {
				fmt.Fprintf(os.Stderr, "triage of %s failed to run: %v\n", path, err)
				return 2
			}
			var ro ReplayOut
			if err := json.Unmarshal(outb, &ro); err != nil {
				return 2
			}
			var crashV *Violation
			for k := range ro.Violations {
				if matchKnown(known, ro.Violations[k]) < 0 {
					crashV = &ro.Violations[k]
					break
				}
			}
			if crashV != nil {
				rf.Class, rf.Sig, rf.Message, rf.Digest = crashV.Class, crashV.Sig, crashV.Msg, ro.Digest
				b, _ := json.MarshalIndent(rf, "", " ")
				os.WriteFile(path, b, 0o644)
				fmt.Printf("violation class=%s sig=%q: %s (found by crash triage: the case killed worker %d)\n", crashV.Class, crashV.Sig, oneLine(crashV.Msg), i)
				fmt.Printf("VIOLATION property=%s replay=%s\n", id, path)
				return 1
			}
			os.Remove(path)
			fmt.Fprintf(os.Stderr, "worker %d: the plain build survives the case (%s); running the worker again with twice the stack ceiling\n", i, cc.Sig)
			r3 := runWorker(i, "VERIF_STACK_X2=1")
			if r3.err != nil {
				fmt.Fprintf(os.Stderr, "worker %d failed again: %v\n%s\n", i, r3.err, r3.log)
				return 2
			}
			r = r3
			triaged++
		}
		total.Merge(r.out.Stats)
		for k, n := range r.out.KnownHits {
			knownHits[k] += n
			if _, ok := knownEx[k]; !ok {
				knownEx[k] = r.out.KnownEx[k]
			}
		}
		failures = append(failures, r.out.Failures...)
		nRandom += r.out.Random
		nSystem += r.out.System
	}

	if triaged > 0 {
		fmt.Printf("note: %d worker(s) were run again with twice the goroutine stack ceiling after the plain build survived the case that killed them\n", triaged)
	}
	// known findings that were observed
	var kIdx []int
	for k := range knownHits {
		kIdx = append(kIdx, k)
	}
	sort.Ints(kIdx)
	for _, k := range kIdx {
		fmt.Printf("KNOWN-FINDING: property=%s %s [%s sig~%s] seen %d times, e.g. %s\n", id, known[k].What, known[k].Class, known[k].Sig, knownHits[k], oneLine(knownEx[k]))
	}

	// violations: write replay files, confirm each in a fresh process
	exit := 0
	seen := map[string]bool{}
	sort.SliceStable(failures, func(i, j int) bool { return failures[i].Violation.Key() < failures[j].Violation.Key() })
	nViol := 0
	unreproduced := 0
	for _, f := range failures {
		if seen[f.Violation.Key()] {
			continue
		}
		seen[f.Violation.Key()] = true
		if nViol >= 12 {
			continue
		}
		rf := ReplayFile{Property: id, Class: f.Violation.Class, Sig: f.Violation.Sig, Message: f.Violation.Msg, Seed: seed, Tier: tier, Shrunk: f.Shrunk, Digest: f.Digest, Case: f.Case}
		dir := filepath.Join(verifDir(), "replays", id)
		os.MkdirAll(dir, 0o755)
		name := fmt.Sprintf("%d-%016x.json", seed, hash64(f.Violation.Key()+f.Digest))
		path := filepath.Join(dir, name)
		b, _ := json.MarshalIndent(rf, "", " ")
		if err := os.WriteFile(path, b, 0o644); err != nil {
			fatal2("%v", err)
		}
		// fresh-process confirmation. For C13 (the program's own nondeterminism is the
		// subject) a violation that stems from real scheduling or heap addresses recurs
		// only with the probability the program allows: up to 25 fresh processes are tried.
		attempts := 1
		if id == "C13" {
			attempts = 25
		}
		ok, digestOK := false, false
		var lastDigest string
		for a := 0; a < attempts && !ok; a++ {
			cmd := exec.Command(self, "replay", path)
			cmd.Env = append(os.Environ(), "VERIF_REPLAY_JSON=1")
			outb, err := cmd.Output()
			if err != nil {
				fmt.Fprintf(os.Stderr, "replay of %s failed to run: %v\n", path, err)
				return 2
			}
			var ro ReplayOut
			if err := json.Unmarshal(outb, &ro); err != nil {
				fmt.Fprintf(os.Stderr, "replay of %s: %v\n", path, err)
				return 2
			}
			lastDigest = ro.Digest
			for _, v := range ro.Violations {
				if v.Class == f.Violation.Class && v.Sig == f.Violation.Sig {
					ok = true
				}
			}
			digestOK = ro.Digest == f.Digest
		}
		if !ok && id == "C13" {
			// the program's own nondeterminism did not show again in 25 fresh processes
			fmt.Printf("note: %s (class %s) did not recur in %d fresh processes; not reported\n", path, f.Violation.Class, attempts)
			os.Remove(path)
			unreproduced++
			continue
		}
		if !ok || (!digestOK && id != "C13") {
			fmt.Fprintf(os.Stderr, "HARNESS NONDETERMINISM: %s does not reproduce in a fresh process (class ok=%v digest %s vs %s)\n", path, ok, lastDigest, f.Digest)
			return 2
		}
		fmt.Printf("violation class=%s sig=%q: %s\n", f.Violation.Class, f.Violation.Sig, oneLine(f.Violation.Msg))
		fmt.Printf("VIOLATION property=%s replay=%s\n", id, path)
		nViol++
		exit = 1
	}

	if unreproduced > 0 && nViol == 0 {
		fmt.Fprintf(os.Stderr, "violations were observed but none recurred on replay: inconclusive\n")
		return 2
	}
	wall := time.Since(start).Seconds()
	writeEvidence(prop, tier, seed, total, st, wall, nViol, nRandom, nSystem, W, knownHits, known)
	fmt.Printf("property=%s tier=%s cases=%d (systematic %d, random %d) runs=%d ticks=%d wall=%.1fs violations=%d\n", id, tier, total.Cases, nSystem, nRandom, total.Runs, total.Ticks, wall, nViol)
	if tier == "thorough" {
		for _, c := range prop.ReachTargets {
			if total.Counters[c] == 0 {
				fmt.Printf("WARNING: reach probe %s stuck at zero\n", c)
			}
		}
	}
	return exit
}

// headTailBuf keeps the first and the last 3000 bytes written to it (a Go crash dump:
// the cause is at the top, the rest is goroutine traces).
type headTailBuf struct {
	head, tail []byte
	n          int
}

func (b *headTailBuf) Write(p []byte) (int, error) {
	b.n += len(p)
	if room := 3000 - len(b.head); room > 0 {
		k := len(p)
		if k > room {
			k = room
		}
		b.head = append(b.head, p[:k]...)
		p2 := p[k:]
		b.tail = append(b.tail, p2...)
	} else {
		b.tail = append(b.tail, p...)
	}
	if len(b.tail) > 6000 {
		b.tail = append([]byte(nil), b.tail[len(b.tail)-3000:]...)
	}
	return len(p), nil
}

func (b *headTailBuf) String() string {
	t := b.tail
	if len(t) > 3000 {
		t = t[len(t)-3000:]
	}
	if len(t) == 0 {
		return string(b.head)
	}
	return string(b.head) + "\n[...]\n" + string(t)
}

func absSeed(s int64) int64 {
	if s < 0 {
		s = -s
	}
	return s % 1000000007
}

func oneLine(s string) string {
	s = strings.ReplaceAll(s, "\n", "\\n")
	if len(s) > 400 {
		s = s[:400] + "..."
	}
	return s
}

// ---------------------------------------------------------------- evidence

func writeEvidence(prop *Property, tier string, seed int64, st *Stats, self *SelfTestReport, wall float64, nViol int, nRandom, nSystem int64, W int, knownHits map[int]int64, known []KnownFinding) {
	faults := map[string]int64{}
	reach := map[string]int64{}
	other := map[string]int64{}
	for k, v := range st.Counters {
		switch {
		case strings.HasPrefix(k, "fault."):
			faults[strings.TrimPrefix(k, "fault.")] = v
		case strings.HasPrefix(k, "reach."):
			reach[strings.TrimPrefix(k, "reach.")] = v
		default:
			other[k] = v
		}
	}
	distinct := map[string]int{}
	for k := range st.sets {
		distinct[k] = st.DistinctCount(k)
	}
	dn := st.DistinctCount(prop.DistinctSet)
	var samples []interface{}
	for _, s := range st.Samples {
		var v interface{}
		json.Unmarshal(s, &v)
		samples = append(samples, v)
	}
	if len(samples) == 0 {
		samples = append(samples, "no sample recorded")
	}
	kf := []string{}
	for k, n := range knownHits {
		kf = append(kf, fmt.Sprintf("%s x%d", known[k].What, n))
	}
	sort.Strings(kf)
	clock := map[string]interface{}{}
	if st.ClockMaxMs >= st.ClockMinMs {
		clock["min_ms"] = st.ClockMinMs
		clock["max_ms"] = st.ClockMaxMs
		clock["sum_of_per_run_spans_ms"] = st.ClockSpan
	}
	ev := map[string]interface{}{
		"property_id": prop.ID,
		"tier":        tier,
		"seed":        seed,
		"level":       prop.Level,
		"wall_s":      wall,
		"violations":  nViol,
		"assumptions": prop.Assumptions,
		"coverage": map[string]interface{}{
			"evaluations":             st.Runs,
			"distinct_nontrivial":     dn,
			"rule":                    prop.Rule,
			"samples":                 samples,
			"cases":                   st.Cases,
			"systematic_cases":        nSystem,
			"random_cases_rapid":      nRandom,
			"simulated_runs":          st.Runs,
			"simulated_runs_per_hour": int64(float64(st.Runs) / wall * 3600),
			"seeds":                   fmt.Sprintf("VERIF_SEED=%d; worker i of %d uses rapid seed %d*1000+i+1", seed, W, absSeed(seed)),
			"logical_time_ticks":      st.Ticks,
			"simulated_clock":         clock,
			"faults_fired":            faults,
			"reach_probes":            reach,
			"counters":                other,
			"distinct_by_measure":     distinct,
			"distinct_measure_used":   prop.DistinctSet,
			"components":              prop.Components,
			"self_tests":              self,
			"known_findings_seen":     kf,
			"workers":                 W,
			"exhaustive":              false,
		},
	}
	// the task scheduler: what the instrumenter found in this tree and what actually ran
	sched := map[string]interface{}{
		"what": "goroutines, timers, channel operations, select and blocking sync methods of the program run as tasks under a seeded scheduler (verifsimrt/tasks.go); one seed = one interleaving",
	}
	if b, err := os.ReadFile(os.Getenv("VERIF_INSTRUMENT_REPORT")); err == nil {
		var ir struct {
			Rewrites   map[string]int `json:"rewrites"`
			Unmodelled []string       `json:"unmodelled"`
		}
		if json.Unmarshal(b, &ir) == nil {
			conc := map[string]int{}
			for _, k := range []string{"go statement", "chan receive", "chan send", "range over channel", "select", "time.NewTicker", "time.Tick", "time.NewTimer", "time.After", "time.AfterFunc", "time.Sleep"} {
				if ir.Rewrites[k] > 0 {
					conc[k] = ir.Rewrites[k]
				}
			}
			for k, n := range ir.Rewrites {
				if strings.HasPrefix(k, "sync.") {
					conc[k] = n
				}
			}
			sched["constructs_found_in_the_tree"] = conc
			if len(conc) == 0 {
				sched["note"] = "this tree starts no goroutine and uses no timer, channel or lock: the scheduler was dormant (one task per run)"
			}
			sched["unmodelled_constructs"] = ir.Unmodelled
		}
	}
	sched["task_switches"] = st.Counters["sched.task_switches"]
	sched["goroutines_started"] = st.Counters["sched.goroutines_started_by_the_program"]
	sched["timers_fired"] = st.Counters["sched.timers_fired"]
	sched["distinct_interleavings"] = len(st.sets["interleavings"]) + len(st.Distinct["interleavings"])
	ev["coverage"].(map[string]interface{})["task_scheduler"] = sched
	b, _ := json.MarshalIndent(ev, "", " ")
	dir := filepath.Join(verifDir(), "evidence")
	os.MkdirAll(dir, 0o755)
	if err := os.WriteFile(filepath.Join(dir, prop.ID+".json"), b, 0o644); err != nil {
		fatal2("%v", err)
	}
}

var _ = io.EOF

func clipN(s string, n int) string {
	if len(s) <= n {
		return s
	}
	return strings.ToValidUTF8(s[:n/2], "") + fmt.Sprintf(" ...[%d bytes omitted]... ", len(s)-n) + strings.ToValidUTF8(s[len(s)-n/2:], "")
}

// ---------------------------------------------------------------- minimisation

// minimiseDraws shrinks the vector of draws a systematic case was generated
// from (truncate, delete blocks, lower single values) while the same violation
// class persists. Draws beyond the end of the vector read as the lower bound of
// their range, so every shortened vector still generates a well-formed case.
func minimiseDraws(cs *Case, v Violation, same func(*Case, string) (Violation, bool)) (*Case, Violation, bool) {
	best := append([]int(nil), cs.draws...)
	bestCase, bestV := cs, v
	evals := 0
	try := func(vals []int) bool {
		if evals >= 600 {
			return false
		}
		evals++
		c := cs.regen(&fixedSrc{vals: vals})
		c.regen, c.draws = cs.regen, vals
		if nv, ok := same(c, v.Class); ok {
			best, bestCase, bestV = vals, c, nv
			return true
		}
		return false
	}
	for improved := true; improved && evals < 600; {
		improved = false
		for cut := len(best) / 2; cut >= 1; cut /= 2 {
			for len(best) >= cut && try(append([]int(nil), best[:len(best)-cut]...)) {
				improved = true
			}
		}
		for size := len(best) / 2; size >= 1; size /= 2 {
			for i := 0; i+size <= len(best); {
				cand := append(append([]int(nil), best[:i]...), best[i+size:]...)
				if try(cand) {
					improved = true
				} else {
					i += size
				}
			}
		}
		for i := 0; i < len(best); i++ {
			if best[i] == 0 {
				continue
			}
			cand := append([]int(nil), best...)
			cand[i] = 0
			if try(cand) {
				improved = true
				continue
			}
			if best[i] > 1 || best[i] < -1 {
				cand = append([]int(nil), best...)
				cand[i] = best[i] / 2
				if try(cand) {
					improved = true
				}
			}
		}
	}
	return bestCase, bestV, len(best) < len(cs.draws) || bestCase != cs
}

// pruneSchedules simplifies the schedules of a failing case directly (no
// regeneration): drops runs that are not needed, then replaces map-order
// decisions, chunk scripts, clock scripts, GC points and ballast by their
// defaults, as long as the same violation class persists.
func pruneSchedules(prop *Property, cs *Case, v Violation, same func(*Case, string) (Violation, bool)) (*Case, Violation, bool) {
	cur := *cs
	cur.Runs = append([]Run(nil), cs.Runs...)
	curV := v
	changed := false
	accept := func(c Case) bool {
		if nv, ok := same(&c, v.Class); ok {
			cur, curV, changed = c, nv, true
			return true
		}
		return false
	}
	if prop.PrunableRuns {
		for i := len(cur.Runs) - 1; i >= 1 && len(cur.Runs) > 2; i-- {
			c := cur
			c.Runs = append(append([]Run(nil), cur.Runs[:i]...), cur.Runs[i+1:]...)
			accept(c)
		}
	}
	for i := range cur.Runs {
		edit := func(f func(r *Run)) {
			c := cur
			c.Runs = append([]Run(nil), cur.Runs...)
			f(&c.Runs[i])
			accept(c)
		}
		r := cur.Runs[i].Cfg
		if len(r.GCTicks) > 0 || r.Ballast > 0 {
			edit(func(r *Run) { r.Cfg.GCTicks, r.Cfg.Ballast = nil, 0 })
		}
		if len(r.ClockStepsMs) > 0 || r.ClockNs != 0 || r.TZOffsetMin != 0 {
			edit(func(r *Run) { r.Cfg.ClockStepsMs, r.Cfg.ClockNs, r.Cfg.TZOffsetMin = nil, 0, 0 })
		}
		if len(r.Chunks) > 0 {
			edit(func(r *Run) { r.Cfg.Chunks = nil })
		}
		if r.Env != nil || r.Pid != 0 || r.RandSeed != 0 {
			edit(func(r *Run) { r.Cfg.Env, r.Cfg.Pid, r.Cfg.RandSeed = nil, 0, 0 })
		}
		// map-order decisions: all identity, then shorter, then one by one
		if len(cur.Runs[i].Cfg.Orders) > 0 {
			edit(func(r *Run) { r.Cfg.Orders = nil })
			for n := len(cur.Runs[i].Cfg.Orders) / 2; n >= 1 && len(cur.Runs[i].Cfg.Orders) > 0; n /= 2 {
				for len(cur.Runs[i].Cfg.Orders) >= n {
					before := len(cur.Runs[i].Cfg.Orders)
					edit(func(r *Run) { r.Cfg.Orders = append([]int(nil), r.Cfg.Orders[:len(r.Cfg.Orders)-n]...) })
					if len(cur.Runs[i].Cfg.Orders) == before {
						break
					}
				}
			}
			for j := 0; j < len(cur.Runs[i].Cfg.Orders) && j < 64; j++ {
				if cur.Runs[i].Cfg.Orders[j] != 0 {
					jj := j
					edit(func(r *Run) {
						o := append([]int(nil), r.Cfg.Orders...)
						o[jj] = 0
						r.Cfg.Orders = o
					})
				}
			}
		}
	}
	return &cur, curV, changed
}
