package main

type C12Expect struct{}
type C20Expect struct{}
type C13Expect struct{}
