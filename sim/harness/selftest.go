package main

import (
	"bytes"
	"encoding/json"
	"fmt"
	"os"
	"os/exec"
	"path/filepath"
	"strings"

	sim "github.com/ah-naf/borno/verifsimrt"
)

// Self-tests of the simulator. Every failure here is harness trouble: exit 2,
// never a VIOLATION.

type SelfTestReport struct {
	DeterminismCases     int      `json:"determinism_cases"`
	DeterminismRuns      int      `json:"determinism_runs_compared"`
	FreshProcessRuns     int      `json:"fresh_process_runs_compared"`
	GOMAXPROCS           []int    `json:"gomaxprocs_values"`
	IsolationRuns        int      `json:"isolation_runs_compared"`
	ConformanceScenarios int      `json:"conformance_scenarios_vs_plain_build"`
	ConformanceSkipped   string   `json:"conformance_skipped,omitempty"`
	SUTNondeterminism    int      `json:"nondeterminism_of_the_program_seen_by_self_test,omitempty"`
	Notes                []string `json:"notes,omitempty"`
}

// lcgSrc is a tiny deterministic choice source for sampling self-test cases
// (it is not used for exploration, which is rapid's job).
type lcgSrc struct{ x uint64 }

func (l *lcgSrc) Int(label string, lo, hi int) int {
	if lo >= hi {
		return lo
	}
	l.x = l.x*6364136223846793005 + 1442695040888963407
	return lo + int((l.x>>33)%uint64(hi-lo+1))
}

// selfTestFail: a digest mismatch between two executions of one configuration.
// For every property but C13 this is harness trouble (exit 2). For C13 the
// property under test IS determinism of the program: two different histories
// of one configuration are its violation, which the workers then find and
// report through their "identity-again" / "fresh-process:identity" runs; the
// self-test only notes what it saw.
func selfTestFail(id string, rep *SelfTestReport, c sim.Config, format string, a ...interface{}) {
	if id == "C13" {
		rep.SUTNondeterminism++
		if len(rep.Notes) < 5 {
			rep.Notes = append(rep.Notes, "two executions of one configuration differ (left to the C13 oracle): "+fmt.Sprintf(format, a...))
		}
		return
	}
	dumpCfg(c)
	fatal2(format, a...)
}

func selfTests(id, tier string, seed int64, self string) *SelfTestReport {
	prop := properties[id]
	rep := &SelfTestReport{GOMAXPROCS: []int{1, 4, 16}}
	n := 64
	if tier == "thorough" {
		n = 600
	}
	// sample cases
	var cases []*Case
	if prop.Systematic != nil {
		all := prop.Systematic(tier)
		step := len(all)/(n/2) + 1
		for i := 0; i < len(all); i += step {
			cases = append(cases, all[i])
		}
	}
	if prop.Random != nil {
		src := &lcgSrc{x: uint64(seed)*2654435761 + 12345}
		for len(cases) < n {
			cases = append(cases, prop.Random(src, tier))
		}
	}
	rep.DeterminismCases = len(cases)
	var cfgs []sim.Config
	for _, c := range cases {
		for _, r := range c.Runs {
			if strings.HasPrefix(r.Role, "fresh-process") {
				continue // only ever executed in a process of its own (may not survive in this one)
			}
			cfgs = append(cfgs, r.Cfg)
		}
	}
	if len(cfgs) > 4000 {
		cfgs = cfgs[:4000]
	}
	// (1) twice in this process, in order
	d1 := make([]string, len(cfgs))
	for i, c := range cfgs {
		d1[i] = digestResults([]sim.Result{Exec(c)})
	}
	for i, c := range cfgs {
		if d := digestResults([]sim.Result{Exec(c)}); d != d1[i] {
			selfTestFail(id, rep, c, "self-test determinism: config %d differs between two in-process runs", i)
		}
		rep.DeterminismRuns++
	}
	// (2) isolation: reverse order (a package-level variable missed by the
	// generated reset would show as an order dependence)
	for i := len(cfgs) - 1; i >= 0; i-- {
		if d := digestResults([]sim.Result{Exec(cfgs[i])}); d != d1[i] {
			selfTestFail(id, rep, cfgs[i], "self-test isolation: config %d depends on what ran before it", i)
		}
		rep.IsolationRuns++
	}
	// (3) fresh processes under different GOMAXPROCS: one process per config
	// for a few, one batch process for all.
	for _, gmp := range rep.GOMAXPROCS {
		lim := 6
		if tier == "thorough" {
			lim = 40
		}
		for i := 0; i < len(cfgs) && i < lim; i++ {
			k := (i * 7919) % len(cfgs)
			b, _ := json.Marshal(cfgs[k])
			cmd := exec.Command(self, "one")
			cmd.Env = append(os.Environ(), fmt.Sprintf("GOMAXPROCS=%d", gmp))
			cmd.Stdin = bytes.NewReader(b)
			out, err := cmd.Output()
			if err != nil {
				fatal2("self-test fresh process: %v", err)
			}
			var r sim.Result
			if err := json.Unmarshal(out, &r); err != nil {
				fatal2("self-test fresh process: %v", err)
			}
			if d := digestResults([]sim.Result{r}); d != d1[k] {
				selfTestFail(id, rep, cfgs[k], "self-test determinism: config %d differs in a fresh process (GOMAXPROCS=%d)", k, gmp)
			}
			rep.FreshProcessRuns++
		}
	}
	conformance(rep)
	return rep
}

func dumpCfg(c sim.Config) {
	b, _ := json.MarshalIndent(c, "", " ")
	fmt.Fprintf(os.Stderr, "config:\n%s\n", b)
}

// conformance compares the instrumented, simulated CLI with the plain build
// of the same tree run as a real process over real pipes.
func conformance(rep *SelfTestReport) {
	bin := os.Getenv("BORNO_PLAIN_BIN")
	if bin == "" {
		rep.ConformanceSkipped = "BORNO_PLAIN_BIN not set"
		return
	}
	type sc struct {
		name  string
		args  []string // after argv[0]
		files map[string]string
		stdin string
	}
	prog := func(s string) map[string]string { return map[string]string{"t.bn": s} }
	scs := []sc{
		{"clean", []string{"t.bn"}, prog("দেখাও \"a\";\nধরি x = 1 + 2;\nদেখাও x * 2;\n"), ""},
		{"runtime-top", []string{"t.bn"}, prog("দেখাও \"a\";\nদেখাও nx;\nদেখাও \"b\";\n"), ""},
		{"runtime-div", []string{"t.bn"}, prog("দেখাও 1;\nধরি y = 1 / 0;\n"), ""},
		{"lex", []string{"t.bn"}, prog("দেখাও 1;\n@\nদেখাও 2;\n"), ""},
		{"syntax", []string{"t.bn"}, prog("দেখাও 1;\nধরি = 5;\n"), ""},
		{"unterminated", []string{"t.bn"}, prog("দেখাও \"abc;\n"), ""},
		{"usage", []string{"a.bn", "b.bn"}, nil, ""},
		{"ext", []string{"a.txt"}, nil, ""},
		{"missing", []string{"nope.bn"}, nil, ""},
		{"empty", []string{"t.bn"}, prog(""), ""},
		{"input1", []string{"t.bn"}, prog("দেখাও \"[\" + ইনপুট(\"p1\") + \"]\";\n"), "  hello \n"},
		{"func-loop", []string{"t.bn"}, prog("ফাংশন f(n) {\n ফেরত n + 1;\n}\nফর (ধরি i = 0; i < 3; i = i + 1) {\n দেখাও f(i);\n}\n"), ""},
		{"array", []string{"t.bn"}, prog("ধরি a = [1, 2, 3];\nদেখাও লেন(a);\nদেখাও a[1];\nদেখাও a[7];\n"), ""},
		{"object1", []string{"t.bn"}, prog("ধরি o = {k: 5};\nদেখাও o.k;\nদেখাও অব্জেক্ট_কি(o);\nদেখাও o.z;\n"), ""},
		{"repl", nil, nil, "দেখাও 1;\n2 + 3;\nnx;\nদেখাও \"after\";\n@\n\"s\";\n"},
		{"repl-empty", nil, nil, ""},
		{"stray-break", []string{"t.bn"}, prog("দেখাও 1;\nথামো;\nদেখাও 2;\n"), ""},
		{"math", []string{"t.bn"}, prog("দেখাও বর্গমূল(16);\nদেখাও সর্বোচ্চ(1, 5, 3);\nদেখাও রাউন্ড(2.5);\n"), ""},
	}
	for _, s := range scs {
		dir, err := os.MkdirTemp("", "bornosim-conf-")
		if err != nil {
			fatal2("%v", err)
		}
		files := map[string]sim.File{}
		for name, content := range s.files {
			os.WriteFile(filepath.Join(dir, name), []byte(content), 0o644)
			files[name] = sim.File{Data: []byte(content)}
		}
		cmd := exec.Command(bin, s.args...)
		cmd.Dir = dir
		cmd.Stdin = strings.NewReader(s.stdin)
		var so, se bytes.Buffer
		cmd.Stdout, cmd.Stderr = &so, &se
		err = cmd.Run()
		status := 0
		if ee, ok := err.(*exec.ExitError); ok {
			status = ee.ExitCode()
		} else if err != nil {
			os.RemoveAll(dir)
			fatal2("conformance: cannot run plain build: %v", err)
		}
		os.RemoveAll(dir)
		cfg := sim.Config{Args: append([]string{"borno"}, s.args...), Files: files, Stdin: []byte(s.stdin), ChunkDefault: -1, StdinErrAt: -1}
		o := Observe(Exec(cfg))
		if o.Stdout != so.String() || o.Stderr != se.String() || o.ExitStatus() != status {
			if treeIsConcurrent() {
				// the real run is one schedule among many (decided by the Go scheduler and the real
				// clock); it need not be the one the simulator's default seed produces
				if len(rep.Notes) < 8 {
					rep.Notes = append(rep.Notes, fmt.Sprintf("conformance scenario %q differs from the plain build; the tree starts goroutines or timers, so the real run is just one schedule (sim exit=%d stdout=%q stderr=%q / real exit=%d stdout=%q stderr=%q)", s.name, o.ExitStatus(), clipN(o.Stdout, 200), clipN(o.Stderr, 200), status, clipN(so.String(), 200), clipN(se.String(), 200)))
				}
				continue
			}
			fatal2("conformance scenario %q: simulated run differs from the plain build\n sim:  exit=%d stdout=%q stderr=%q\n real: exit=%d stdout=%q stderr=%q",
				s.name, o.ExitStatus(), o.Stdout, o.Stderr, status, so.String(), se.String())
		}
		rep.ConformanceScenarios++
	}
}

// treeIsConcurrent: the instrumenter found go statements or timers in the tree under test
func treeIsConcurrent() bool {
	b, err := os.ReadFile(os.Getenv("VERIF_INSTRUMENT_REPORT"))
	if err != nil {
		return false
	}
	var ir struct {
		Rewrites map[string]int `json:"rewrites"`
	}
	if json.Unmarshal(b, &ir) != nil {
		return false
	}
	for _, k := range []string{"go statement", "time.NewTicker", "time.Tick", "time.NewTimer", "time.After", "time.AfterFunc"} {
		if ir.Rewrites[k] > 0 {
			return true
		}
	}
	return false
}
