package main

import (
	"fmt"
	"strings"
)

// A grammar-based random program generator. It makes no prediction about what a
// program does, so it only serves oracles that need none: C13 (all schedules of
// one program agree) and C20 (a line answers as in a fresh session). Loops are
// bounded by construction (a counter in the condition), recursion by a depth
// argument; programs may still fail at run time anywhere, which is welcome.

type progGen struct {
	s      Src
	vars   []string // declared so far (any scope; using one out of scope is just another fault)
	funcs  []string
	nvar   int
	inLoop int
	inFunc int
	oneLine bool
	effects bool // also generate ইনপুট / ক্লক calls (for oracles that watch the event history)
}

var pgNames = []string{"a", "b", "cnt", "total", "total1", "ক", "নাম", "x_1", "tmp", "ID", "id"}
var pgKeys = []string{"k", "alpha", "beta", "ID", "id", "বয়স", "k2", "k10", "name", "next"}
var pgBinOps = []string{"+", "-", "*", "/", "%", "**", "<", "<=", ">", ">=", "==", "!=", "&", "|", "^", "<<", ">>"}
var pgBuiltins1 = []string{FnLen, FnKeys, FnValues, FnAbs, FnSqrt, FnSin, FnCos, FnTan, FnRound, FnMin, FnMax}

func (g *progGen) name() string {
	if len(g.vars) > 0 && !Chance(g.s, "undecl", 1, 12) {
		return Pick(g.s, "var", g.vars)
	}
	return Pick(g.s, "name", pgNames)
}

func (g *progGen) literal() string {
	switch g.s.Int("lit", 0, 11) {
	case 0:
		return fmt.Sprint(g.s.Int("int", 0, 12))
	case 1:
		return Pick(g.s, "num", []string{"0", "-0", "0.5", "1.5", "2", "10", "1000000", "0.1", "3.14", "১২", "৩.৫", "63", "64", "9007199254740993"})
	case 2:
		return Pick(g.s, "str", []string{"\"\"", "\"a\"", "\"abc\"", "\"12\"", "\"0\"", "\"a b\"", "\"কলম\"", "\"100%\"", "\"{\"", "\"x\\y\""})
	case 3:
		return KwTrue
	case 4:
		return KwFalse
	case 5:
		return "nil"
	default:
		return fmt.Sprint(g.s.Int("small", 0, 5))
	}
}

func (g *progGen) expr(d int) string {
	if d <= 0 {
		if Bool(g.s, "leafvar") {
			return g.name()
		}
		return g.literal()
	}
	if g.effects && Chance(g.s, "effect", 1, 10) {
		return Pick(g.s, "effectcall", []string{FnInput + "()", FnInput + "(\"ask\")", FnClock + "()", FnLen + "([1])"})
	}
	switch g.s.Int("expr", 0, 15) {
	case 0, 1:
		return g.literal()
	case 2, 3:
		return g.name()
	case 4:
		return Pick(g.s, "unop", []string{"-", "!", "~"}) + g.expr(d-1)
	case 5, 6, 7:
		return "(" + g.expr(d-1) + " " + Pick(g.s, "binop", pgBinOps) + " " + g.expr(d-1) + ")"
	case 8:
		return "(" + g.expr(d-1) + " " + Pick(g.s, "logop", []string{KwAnd, KwOr, "&&", "||"}) + " " + g.expr(d-1) + ")"
	case 9:
		n := g.s.Int("nelem", 0, 3)
		var el []string
		for i := 0; i < n; i++ {
			el = append(el, g.expr(d-1))
		}
		return "[" + strings.Join(el, ", ") + "]"
	case 10:
		n := g.s.Int("nprop", 0, 4)
		var el []string
		for i := 0; i < n; i++ {
			el = append(el, Pick(g.s, "key", pgKeys)+": "+g.expr(d-1))
		}
		return "({" + strings.Join(el, ", ") + "})"
	case 11:
		fn := Pick(g.s, "builtin", pgBuiltins1)
		n := g.s.Int("nargs", 1, 2)
		var a []string
		for i := 0; i < n; i++ {
			a = append(a, g.expr(d-1))
		}
		return fn + "(" + strings.Join(a, ", ") + ")"
	case 12:
		if len(g.funcs) > 0 {
			return Pick(g.s, "fn", g.funcs) + "(" + g.expr(d-1) + ")"
		}
		return FnAppend + "(" + g.expr(d-1) + ", " + g.expr(d-1) + ")"
	case 13:
		return g.expr(d-1) + "[" + g.expr(d-1) + "]"
	case 14:
		return g.expr(d-1) + "." + Pick(g.s, "key", pgKeys)
	default:
		// assignment forms
		switch g.s.Int("asg", 0, 2) {
		case 0:
			return "(" + g.name() + " = " + g.expr(d-1) + ")"
		case 1:
			return "(" + g.name() + "." + Pick(g.s, "key", pgKeys) + " = " + g.expr(d-1) + ")"
		default:
			return "(" + g.name() + "[" + g.expr(d-1) + "] = " + g.expr(d-1) + ")"
		}
	}
}

func (g *progGen) stmt(d int) []string {
	max := 11
	if d <= 0 {
		max = 4
	}
	switch g.s.Int("stmt", 0, max) {
	case 0, 1:
		return []string{KwPrint + " " + g.expr(2) + ";"}
	case 2:
		g.nvar++
		v := fmt.Sprintf("v%d", g.nvar)
		if Chance(g.s, "poolname", 1, 3) {
			v = Pick(g.s, "name", pgNames)
		}
		line := KwVar + " " + v + " = " + g.expr(2) + ";"
		g.vars = append(g.vars, v)
		return []string{line}
	case 3:
		return []string{g.expr(2) + ";"}
	case 4:
		if g.inLoop > 0 && Chance(g.s, "brk", 1, 2) {
			return []string{Pick(g.s, "bc", []string{KwBreak, KwContinue}) + ";"}
		}
		if g.inFunc > 0 {
			return []string{KwReturn + " " + g.expr(1) + ";"}
		}
		return []string{KwPrint + " " + g.literal() + ";"}
	case 5:
		out := []string{KwIf + " (" + g.expr(2) + ") {"}
		out = append(out, g.block(d-1)...)
		if Bool(g.s, "else") {
			out = append(out, "} "+KwElse+" {")
			out = append(out, g.block(d-1)...)
		}
		return append(out, "}")
	case 6:
		g.nvar++
		w := fmt.Sprintf("w%d", g.nvar)
		out := []string{KwVar + " " + w + " = 0;", KwWhile + " (" + w + " < " + fmt.Sprint(g.s.Int("trips", 0, 3)) + ") {", w + " = " + w + " + 1;"}
		g.inLoop++
		out = append(out, g.block(d-1)...)
		g.inLoop--
		return append(out, "}")
	case 7:
		g.nvar++
		f := fmt.Sprintf("f%d", g.nvar)
		out := []string{KwFor + " (" + KwVar + " " + f + " = 0; " + f + " < " + fmt.Sprint(g.s.Int("trips", 0, 3)) + "; " + f + " = " + f + " + 1) {"}
		g.inLoop++
		out = append(out, g.block(d-1)...)
		g.inLoop--
		return append(out, "}")
	case 8:
		g.nvar++
		fn := fmt.Sprintf("fn%d", g.nvar)
		out := []string{KwFun + " " + fn + "(p) {"}
		g.inFunc++
		saved := g.vars
		g.vars = append(append([]string(nil), g.vars...), "p")
		out = append(out, g.block(d-1)...)
		g.vars = saved
		g.inFunc--
		out = append(out, "}")
		g.funcs = append(g.funcs, fn)
		return out
	case 9:
		out := []string{"{"}
		out = append(out, g.block(d-1)...)
		return append(out, "}")
	case 10:
		return []string{KwVar + " " + fmt.Sprintf("m%d", g.s.Int("mv", 0, 3)) + " = " + g.expr(1) + ", " + fmt.Sprintf("n%d", g.s.Int("nv", 0, 3)) + " = " + g.expr(1) + ";"}
	default:
		if len(g.funcs) > 0 {
			return []string{Pick(g.s, "fn", g.funcs) + "(" + g.expr(1) + ");"}
		}
		return []string{KwPrint + " " + g.expr(3) + ";"}
	}
}

func (g *progGen) block(d int) []string {
	n := g.s.Int("nstmt", 1, 3)
	var out []string
	for i := 0; i < n; i++ {
		out = append(out, g.stmt(d)...)
	}
	return out
}

// randomProgram returns a multi-line program; randomLine a whole small program on one line.
// prelude declares most pool names with values of different kinds, so that most
// references in the generated code are valid and execution gets somewhere.
func (g *progGen) prelude(n int) []string {
	inits := []string{"1", "\"x\"", "0", "[1, 2, 3]", "({k: 1, alpha: 2, ID: 3, id: 4})", "2.5", "[]", "({})", "nil", KwTrue, "({next: {k: 7}, name: \"n\"})"}
	var out []string
	for i := 0; i < n && i < len(pgNames); i++ {
		out = append(out, KwVar+" "+pgNames[i]+" = "+inits[(i+g.s.Int("initrot", 0, len(inits)-1))%len(inits)]+";")
		g.vars = append(g.vars, pgNames[i])
	}
	return out
}

func randomProgram(s Src) string {
	g := &progGen{s: s}
	n := s.Int("ntop", 2, 8)
	out := g.prelude(s.Int("nprelude", 3, 9))
	for i := 0; i < n; i++ {
		out = append(out, g.stmt(2)...)
	}
	return strings.Join(out, "\n") + "\n"
}

func randomLine(s Src) string {
	g := &progGen{s: s, oneLine: true}
	n := s.Int("ntop", 1, 3)
	out := g.prelude(s.Int("nprelude", 0, 4))
	for i := 0; i < n; i++ {
		out = append(out, g.stmt(1)...)
	}
	return strings.Join(out, " ")
}

// randomEffectfulProgram: like randomProgram, with calls that read input, read the clock and print prompts.
func randomEffectfulProgram(s Src) string {
	g := &progGen{s: s, effects: true}
	n := s.Int("ntop", 3, 10)
	out := g.prelude(s.Int("nprelude", 3, 9))
	for i := 0; i < n; i++ {
		out = append(out, g.stmt(2)...)
	}
	return strings.Join(out, "\n") + "\n"
}
