package main

import (
	"fmt"
	"sort"
	"strings"

	sim "github.com/ah-naf/borno/verifsimrt"
)

// C06 — a runtime error stops the program: true cause, right line, nothing afterwards.
//
// Workload: programs from a skeleton language whose control flow is static, so
// the generator itself knows the exact output before the fault, the line of
// the fault and that it is reached. One fault is planted per program (or the
// environment injects one into the k-th dynamic ইনপুট call); effectful
// statements ("probes": prints, ইনপুট with a tagged prompt, ক্লক, other
// built-ins) surround it at every level.

// ---------------------------------------------------------------- skeleton

type skNode struct {
	K     string // trace inprint clock builtin block if while for funcdef call fault decoy
	Tag   int
	Cond  bool
	Trips int
	Kids  []*skNode
	Else  []*skNode
	Name  string
	Style string // call style: stmt | print | var
	F     *skFault
	// filled by emit
	Line int
}

type skFault struct {
	Kind  string   // fault kind name
	Expr  string   // expression text ("" for statement-kind faults)
	Stmt  string   // statement-kind: redecl | redecl-list | break | continue | return | returnval
	Ctx   string   // statement context
	Wraps []string // expression wrappers, innermost first
	Probe string   // in-expression probe: input | clock | len
}

type faultKind struct{ name, expr string }

var c06ExprFaults = []faultKind{
	{"undefined-read", "nx"},
	{"undefined-assign", "(nx = 1)"},
	{"type-mismatch-add", "(nil + 1)"},
	{"type-mismatch-mul", "(nil * 2)"},
	{"type-mismatch-cmp", "(" + KwTrue + " < 1)"},
	{"type-mismatch-neg", "(-\"abc\")"},
	{"type-mismatch-bnot", "(~1.5)"},
	{"type-mismatch-pow", "(2 ** nil)"},
	{"type-mismatch-bitand", "(1 & 1.5)"},
	{"zero-divisor-div", "(1 / 0)"},
	{"zero-divisor-mod", "(1 % 0)"},
	{"zero-divisor-string-zero", "(1 / (\"\" + 0))"},
	{"zero-divisor-string-zero-mod", "(7 % (\"0\" + \"\"))"},
	{"zero-divisor-bangla-string-zero", "(5 / (\"\" + \"\u09e6\"))"},
	{"zero-divisor-string-zero-fraction", "(2 / (\"0.0\" + \"\"))"},
	{"zero-divisor-int", "((1 << 4) / (12 & 3))"},
	{"zero-divisor-int-mod", "((1 << 4) % (12 & 3))"},
	{"negative-shift-right", "(8 >> (0 - 2))"},
	{"negative-shift-left-int", "((1 & 1) << (~0))"},
	{"bad-index-high", "[1, 2][5]"},
	{"bad-index-negative", "[1, 2][-1]"},
	{"bad-index-fraction", "[1, 2][0.5]"},
	{"bad-index-receiver", "(5)[0]"},
	{"bad-index-almost-integer", "[1, 2, 3, 4][(0.1 + 0.2) * 10]"},
	{"bad-index-almost-integer-store", "(arr0[(0.1 + 0.2) * 10 - 3] = 1)"},
	{"type-mismatch-bitand-almost-integer", "(1 & ((0.1 + 0.2) * 10))"},
	{"type-mismatch-shift-almost-integer", "(1 << (0.1 + 0.2 + 0.7 + 0.0000000001))"},
	{"builtin-fails-remove-almost-integer", FnRemove + "([1, 2, 3, 4], (0.1 + 0.2) * 10)"},
	{"missing-property", "({a: 1}).b"},
	{"property-of-non-object", "(5).a"},
	{"non-callable-number", "(5)()"},
	{"non-callable-string", "\"s\"()"},
	{"arity-user", "h2(1)"},
	{"arity-builtin-few", FnLen + "()"},
	{"arity-builtin-many", FnLen + "(1, 2)"},
	{"builtin-fails-len", FnLen + "(5)"},
	{"builtin-fails-remove", FnRemove + "([1], 7)"},
	{"builtin-fails-delete", FnDelete + "({a: 1}, \"zz\")"},
	{"builtin-fails-sqrt", FnSqrt + "(\"x\")"},
	{"builtin-fails-append", FnAppend + "(1, 2)"},
	{"builtin-fails-max", FnMax + "()"},
	{"builtin-fails-max-empty-array", FnMax + "([])"},
	{"builtin-fails-min-empty-array", FnMin + "([])"},
	// diagnostics that embed text of the program: a '%' in it must survive
	{"percent-missing-property", "([obj0][7 % 1]).zz"},
	{"percent-delete-key", FnDelete + "({a: 1}, \"z%d%s%!\")"},
	{"percent-negate-string", "(-\"50%\")"},
	{"percent-undefined-call", "h1(nx % 3)"},
	// callees that are themselves calls
	{"non-callable-chained", "h1(5)(3)"},
	{"arity-chained", "h1(h2)(1)"},
	{"builtin-fails-chained", "h1(" + FnLen + ")(5)"},
	{"non-callable-index", "[1, 2][0](3)"},
	{"non-callable-property", "obj0.k(1)"},
	// diagnostics that would quote very long program text
	{"undefined-long-name", "nx_\u0995\u09b2\u09ae\u0995\u09b2\u09ae\u0995\u09b2\u09ae\u0995\u09b2\u09ae\u0995\u09b2\u09ae\u0995\u09b2\u09ae\u0995\u09b2\u09ae\u0995\u09b2\u09ae\u0995\u09b2\u09ae\u0995\u09b2\u09ae\u0995\u09b2\u09ae\u0995\u09b2\u09ae\u0995\u09b2\u09ae\u0995\u09b2\u09ae\u0995\u09b2\u09ae\u0995\u09b2\u09ae\u0995\u09b2\u09ae\u0995\u09b2\u09ae\u0995\u09b2\u09ae\u0995\u09b2\u09ae\u0995\u09b2\u09ae\u0995\u09b2\u09ae\u0995\u09b2\u09ae\u0995\u09b2\u09ae\u0995\u09b2\u09ae\u0995\u09b2\u09ae\u0995\u09b2\u09ae\u0995\u09b2\u09ae\u0995\u09b2\u09ae\u0995\u09b2\u09ae\u0995\u09b2\u09ae\u0995\u09b2\u09ae\u0995\u09b2\u09ae\u0995\u09b2\u09ae\u0995\u09b2\u09ae\u0995\u09b2\u09ae\u0995\u09b2\u09ae\u0995\u09b2\u09ae\u0995\u09b2\u09ae\u0995\u09b2\u09ae"},
	{"type-mismatch-long-string", "(-\"" + strings.Repeat("\u09ac\u09be\u0995\u09cd\u09af ", 60) + "\")"},
	{"missing-property-long-name", "obj0.nx_\u0995\u09b2\u09ae\u0995\u09b2\u09ae\u0995\u09b2\u09ae\u0995\u09b2\u09ae\u0995\u09b2\u09ae\u0995\u09b2\u09ae\u0995\u09b2\u09ae\u0995\u09b2\u09ae\u0995\u09b2\u09ae\u0995\u09b2\u09ae\u0995\u09b2\u09ae\u0995\u09b2\u09ae\u0995\u09b2\u09ae\u0995\u09b2\u09ae\u0995\u09b2\u09ae\u0995\u09b2\u09ae\u0995\u09b2\u09ae\u0995\u09b2\u09ae\u0995\u09b2\u09ae\u0995\u09b2\u09ae\u0995\u09b2\u09ae\u0995\u09b2\u09ae\u0995\u09b2\u09ae\u0995\u09b2\u09ae\u0995\u09b2\u09ae\u0995\u09b2\u09ae\u0995\u09b2\u09ae\u0995\u09b2\u09ae\u0995\u09b2\u09ae\u0995\u09b2\u09ae\u0995\u09b2\u09ae\u0995\u09b2\u09ae\u0995\u09b2\u09ae\u0995\u09b2\u09ae\u0995\u09b2\u09ae\u0995\u09b2\u09ae\u0995\u09b2\u09ae\u0995\u09b2\u09ae\u0995\u09b2\u09ae\u0995\u09b2\u09ae"},
}

var c06StmtFaults = []string{"redecl", "redecl-list", "redecl-nil", "redecl-uninit", "redecl-noreturn", "redecl-param", "redecl-nil-param", "redecl-funcname", "redecl-self", "shadow-builtin-call",
	"break", "continue", "return", "returnval", "return-multiline", "break-in-func", "continue-in-func", "break-in-func-if",
	// a call site inside a helper, used first with a callee it suits, then with one it does not
	// (whatever a site remembers about its first callee must not excuse the second)
	"warm1-user-clock", "warm1-builtin-clock", "warm1-user-h2", "warm1-builtin-pow", "warm1-user-array", "warm0-clock-h1", "warm0-user-abs", "warm0-clock-nil"}

var c06StmtCtx = []string{"expr", "print", "var", "assign", "varlist", "return", "if-cond", "while-cond", "for-init", "for-cond", "for-inc", "elseif-cond",
	"ml-binary", "ml-call", "ml-array", "ml-object", "ml-cond"}

var c06Wraps = []string{"group", "neg", "not", "binl", "binr", "bin-probe", "arr-elem", "obj-val", "arg", "arg-builtin", "index-recv", "index-idx",
	"store-val", "store-idx", "store-recv", "prop-store-val", "prop-store-recv", "prop-recv", "or-left", "or-right", "and-right", "and-left", "callee", "nested-call", "eq"}

var c06Probes = []string{"input", "clock", "len"}

var c06CallStyles = []string{"stmt", "print", "var", "cond", "arg", "whilecond", "forinc", "forcond", "index", "objlit", "logical", "retwrap", "higher"}

var c06Enclosing = []string{"block", "if-then", "if-else", "while", "for", "func", "func-print", "func-var", "elseif", "while-true", "for-nocond", "func-cond", "func-arg", "func-whilecond", "func-rec",
	"func-forinc", "func-forcond", "func-index", "func-objlit", "func-logical", "func-retwrap", "func-higher"}

type skBuilder struct {
	n int
}

func (b *skBuilder) tag() int { b.n++; return b.n }

func probeText(kind string, tag int) string {
	switch kind {
	case "input":
		return fmt.Sprintf("%s(\"px%dx\")", FnInput, tag)
	case "clock":
		return FnClock + "()"
	default:
		return FnLen + "([1])"
	}
}

func wrapExpr(w, x, p string) string {
	switch w {
	case "group":
		return "(" + x + ")"
	case "neg":
		return "-" + x
	case "not":
		return "!" + x
	case "binl":
		return x + " + 1"
	case "binr":
		return "1 + " + x
	case "bin-probe":
		return x + " + " + p
	case "arr-elem":
		return "[1, " + x + ", " + p + "]"
	case "obj-val":
		return "({ka: " + x + ", kb: " + p + "})"
	case "arg":
		return "h2(" + x + ", " + p + ")"
	case "arg-builtin":
		return FnMax + "(" + x + ", " + p + ")"
	case "index-recv":
		return "(" + x + ")[0]"
	case "index-idx":
		return "[1, 2][" + x + "]"
	case "store-val":
		return "(arr0[0] = " + x + ")"
	case "store-idx":
		return "(arr0[" + x + "] = 1)"
	case "store-recv":
		return "((" + x + ")[0] = " + p + ")"
	case "prop-store-val":
		return "(obj0.k = " + x + ")"
	case "prop-store-recv":
		return "((" + x + ").k = " + p + ")"
	case "prop-recv":
		return "(" + x + ").k"
	case "or-left":
		return "(" + x + " " + KwOr + " " + p + ")"
	case "or-right":
		return "(" + KwFalse + " " + KwOr + " " + x + ")"
	case "and-right":
		return "(" + KwTrue + " " + KwAnd + " " + x + ")"
	case "and-left":
		return "(" + x + " " + KwAnd + " " + p + ")"
	case "callee":
		return "(" + x + ")(" + p + ")"
	case "nested-call":
		return "h1(h1(" + x + "))"
	case "eq":
		return "(" + x + " == " + p + ")"
	}
	return x
}

// emitter

type skEmit struct {
	lines     []string
	twin      bool
	faultLine int
	strip     []string
}

// add appends one statement (possibly spanning several physical lines) and
// returns the number of its first physical line.
func (e *skEmit) add(ind int, s string) int {
	first := len(e.lines) + 1
	for i, part := range strings.Split(s, "\n") {
		if i == 0 {
			part = strings.Repeat("  ", ind) + part
		}
		e.lines = append(e.lines, part)
	}
	return first
}

func (e *skEmit) emitAll(ns []*skNode, ind int) {
	for _, n := range ns {
		e.emit(n, ind)
	}
}

func (e *skEmit) emit(n *skNode, ind int) {
	switch n.K {
	case "trace":
		n.Line = e.add(ind, fmt.Sprintf("%s \"t%d\";", KwPrint, n.Tag))
	case "inprint":
		n.Line = e.add(ind, fmt.Sprintf("%s \"[\" + %s(\"q%d\") + \"]\";", KwPrint, FnInput, n.Tag))
	case "clock":
		n.Line = e.add(ind, fmt.Sprintf("%s c%d = %s();", KwVar, n.Tag, FnClock))
	case "builtin":
		n.Line = e.add(ind, fmt.Sprintf("%s([1, 2]);", FnLen))
	case "mlstring":
		// a string literal that spans three source lines
		n.Line = e.add(ind, fmt.Sprintf("%s \"m%d\nmid\nend%d\";", KwPrint, n.Tag, n.Tag))
	case "mlcomment":
		n.Line = e.add(ind, fmt.Sprintf("/* comment %d\n   * still / comment\n*/", n.Tag))
	case "vardecl":
		n.Line = e.add(ind, fmt.Sprintf("%s vd%d = %d;", KwVar, n.Tag, n.Tag))
	case "varlist":
		n.Line = e.add(ind, fmt.Sprintf("%s va%d = 1, vb%d = va%d + 1;", KwVar, n.Tag, n.Tag, n.Tag))
	case "blank":
		n.Line = e.add(ind, "")
		e.add(ind, fmt.Sprintf("// line comment %d \"not a string", n.Tag))
	case "whiletrue":
		e.add(ind, fmt.Sprintf("%s w%d = 0;", KwVar, n.Tag))
		e.add(ind, fmt.Sprintf("%s (%s) {", KwWhile, KwTrue))
		e.add(ind+1, fmt.Sprintf("w%d = w%d + 1;", n.Tag, n.Tag))
		e.emitAll(n.Kids, ind+1)
		e.add(ind+1, fmt.Sprintf("%s (w%d >= %d) { %s; }", KwIf, n.Tag, n.Trips, KwBreak))
		e.add(ind, "}")
	case "fornocond":
		e.add(ind, fmt.Sprintf("%s (%s f%d = 0; ; f%d = f%d + 1) {", KwFor, KwVar, n.Tag, n.Tag, n.Tag))
		e.add(ind+1, fmt.Sprintf("%s (f%d >= %d) { %s; }", KwIf, n.Tag, n.Trips, KwBreak))
		e.emitAll(n.Kids, ind+1)
		e.add(ind, "}")
	case "rec":
		e.add(ind, fmt.Sprintf("%s %s(n) {", KwFun, n.Name))
		e.add(ind+1, fmt.Sprintf("%s (n > 0) {", KwIf))
		e.add(ind+2, fmt.Sprintf("%s(n - 1);", n.Name))
		e.add(ind+2, fmt.Sprintf("%s \"unwind%d\";", KwPrint, n.Tag))
		e.add(ind+1, fmt.Sprintf("} %s {", KwElse))
		e.emitAll(n.Kids, ind+2)
		e.add(ind+1, "}")
		e.add(ind, "}")
		n.Line = e.add(ind, fmt.Sprintf("%s(%d);", n.Name, n.Trips))
	case "block":
		e.add(ind, "{")
		e.emitAll(n.Kids, ind+1)
		e.add(ind, "}")
	case "if":
		c := KwFalse
		if n.Cond {
			c = KwTrue
		}
		if n.Tag%3 == 0 {
			if n.Cond {
				c = "1 < 2"
			} else {
				c = "2 < 1"
			}
		}
		e.add(ind, fmt.Sprintf("%s (%s) {", KwIf, c))
		e.emitAll(n.Kids, ind+1)
		if n.Else != nil {
			e.add(ind, fmt.Sprintf("} %s {", KwElse))
			e.emitAll(n.Else, ind+1)
		}
		e.add(ind, "}")
	case "elseif":
		// if (false) {..} else if (true) { Kids } else { Else }
		e.add(ind, fmt.Sprintf("%s (%s) {", KwIf, KwFalse))
		e.add(ind+1, fmt.Sprintf("%s \"never%d\";", KwPrint, n.Tag))
		e.add(ind, fmt.Sprintf("} %s %s (%s) {", KwElse, KwIf, KwTrue))
		e.emitAll(n.Kids, ind+1)
		e.add(ind, fmt.Sprintf("} %s {", KwElse))
		e.add(ind+1, fmt.Sprintf("%s \"never%db\";", KwPrint, n.Tag))
		e.add(ind, "}")
	case "while":
		e.add(ind, fmt.Sprintf("%s w%d = 0;", KwVar, n.Tag))
		e.add(ind, fmt.Sprintf("%s (w%d < %d) {", KwWhile, n.Tag, n.Trips))
		e.add(ind+1, fmt.Sprintf("w%d = w%d + 1;", n.Tag, n.Tag))
		e.emitAll(n.Kids, ind+1)
		e.add(ind, "}")
	case "for":
		e.add(ind, fmt.Sprintf("%s (%s f%d = 0; f%d < %d; f%d = f%d + 1) {", KwFor, KwVar, n.Tag, n.Tag, n.Trips, n.Tag, n.Tag))
		e.emitAll(n.Kids, ind+1)
		e.add(ind, "}")
	case "funcdef":
		e.add(ind, fmt.Sprintf("%s %s() {", KwFun, n.Name))
		e.emitAll(n.Kids, ind+1)
		e.add(ind, "}")
	case "call":
		switch n.Style {
		case "print":
			n.Line = e.add(ind, fmt.Sprintf("%s %s();", KwPrint, n.Name))
		case "var":
			n.Line = e.add(ind, fmt.Sprintf("%s r%d = %s();", KwVar, n.Tag, n.Name))
		case "cond":
			n.Line = e.add(ind, fmt.Sprintf("%s (%s()) { %s \"cthen%d\"; } %s { %s \"celse%d\"; }", KwIf, n.Name, KwPrint, n.Tag, KwElse, KwPrint, n.Tag))
		case "arg":
			n.Line = e.add(ind, fmt.Sprintf("h2(h1(%s()), %d);", n.Name, n.Tag))
		case "whilecond":
			n.Line = e.add(ind, fmt.Sprintf("%s (%s()) { %s \"cnever%d\"; }", KwWhile, n.Name, KwPrint, n.Tag))
		case "forinc":
			n.Line = e.add(ind, fmt.Sprintf("%s (%s k%d = 0; k%d < 1; k%d = k%d + 1 + z0(%s())) { %s \"fi%d\"; }", KwFor, KwVar, n.Tag, n.Tag, n.Tag, n.Tag, n.Name, KwPrint, n.Tag))
		case "forcond":
			n.Line = e.add(ind, fmt.Sprintf("%s (%s k%d = 0; k%d < 1 %s z0(%s()) == 0; k%d = k%d + 1) { %s \"fc%d\"; }", KwFor, KwVar, n.Tag, n.Tag, KwAnd, n.Name, n.Tag, n.Tag, KwPrint, n.Tag))
		case "index":
			n.Line = e.add(ind, fmt.Sprintf("%s arr0[z0(%s())];", KwPrint, n.Name))
		case "objlit":
			n.Line = e.add(ind, fmt.Sprintf("%s ol%d = {a: %s(), b: [%s(), 2]};", KwVar, n.Tag, n.Name, n.Name))
		case "logical":
			n.Line = e.add(ind, fmt.Sprintf("%s %s() %s \"lg%d\";", KwPrint, n.Name, KwOr, n.Tag))
		case "retwrap":
			e.add(ind, fmt.Sprintf("%s rw%d() { %s %s(); }", KwFun, n.Tag, KwReturn, n.Name))
			n.Line = e.add(ind, fmt.Sprintf("%s rw%d();", KwPrint, n.Tag))
		case "higher":
			n.Line = e.add(ind, fmt.Sprintf("apply(%s);", n.Name))
		default:
			n.Line = e.add(ind, n.Name+"();")
		}
	case "decoy":
		// never executed code that contains a fault
		if n.Tag%2 == 0 {
			e.add(ind, fmt.Sprintf("%s (%s) {", KwIf, KwFalse))
			e.add(ind+1, fmt.Sprintf("%s decoy%d;", KwPrint, n.Tag))
			e.add(ind, "}")
		} else {
			e.add(ind, fmt.Sprintf("%s uncalled%d() {", KwFun, n.Tag))
			e.add(ind+1, fmt.Sprintf("%s 1 / 0;", KwPrint))
			e.add(ind, "}")
		}
	case "fault":
		if e.twin {
			n.Line = e.add(ind, fmt.Sprintf("%s \"twin\";", KwPrint))
			return
		}
		e.emitFault(n, ind)
	}
}

func (e *skEmit) emitFault(n *skNode, ind int) {
	f := n.F
	t := n.Tag
	if f.Stmt != "" {
		switch f.Stmt {
		case "redecl":
			e.add(ind, fmt.Sprintf("%s r%d = 1;", KwVar, t))
			n.Line = e.add(ind, fmt.Sprintf("%s r%d = 2;", KwVar, t))
		case "redecl-list":
			n.Line = e.add(ind, fmt.Sprintf("%s r%d = 1, r%d = 2;", KwVar, t, t))
		case "redecl-nil":
			e.add(ind, fmt.Sprintf("%s r%d = nil;", KwVar, t))
			n.Line = e.add(ind, fmt.Sprintf("%s r%d = 2;", KwVar, t))
		case "redecl-uninit":
			e.add(ind, fmt.Sprintf("%s r%d;", KwVar, t))
			n.Line = e.add(ind, fmt.Sprintf("%s r%d;", KwVar, t))
		case "redecl-noreturn":
			e.add(ind, fmt.Sprintf("%s r%d = h2(1, 2);", KwVar, t))
			n.Line = e.add(ind, fmt.Sprintf("%s r%d = 3;", KwVar, t))
		case "redecl-param":
			e.add(ind, fmt.Sprintf("%s rp%d(p, q) {", KwFun, t))
			e.add(ind+1, fmt.Sprintf("%s \"in%d\";", KwPrint, t))
			n.Line = e.add(ind+1, fmt.Sprintf("%s q = 1;", KwVar))
			e.add(ind+1, fmt.Sprintf("%s \"after%d\";", KwPrint, t))
			e.add(ind, "}")
			e.add(ind, fmt.Sprintf("rp%d(1, 2);", t))
		case "redecl-nil-param":
			e.add(ind, fmt.Sprintf("%s rp%d(p, q) {", KwFun, t))
			e.add(ind+1, fmt.Sprintf("%s \"in%d\";", KwPrint, t))
			n.Line = e.add(ind+1, fmt.Sprintf("%s p = 1;", KwVar))
			e.add(ind+1, fmt.Sprintf("%s \"after%d\";", KwPrint, t))
			e.add(ind, "}")
			e.add(ind, fmt.Sprintf("rp%d(nil, 2);", t))
		case "redecl-funcname":
			e.add(ind, fmt.Sprintf("%s rf%d() { }", KwFun, t))
			n.Line = e.add(ind, fmt.Sprintf("%s rf%d = 1;", KwVar, t))
		case "redecl-self":
			e.add(ind, fmt.Sprintf("%s rs%d() {", KwFun, t))
			e.add(ind+1, fmt.Sprintf("%s \"in%d\";", KwPrint, t))
			n.Line = e.add(ind+1, fmt.Sprintf("%s rs%d = 1;", KwVar, t))
			e.add(ind+1, fmt.Sprintf("%s \"after%d\";", KwPrint, t))
			e.add(ind, "}")
			e.add(ind, fmt.Sprintf("rs%d();", t))
		case "shadow-builtin-call":
			e.add(ind, fmt.Sprintf("%s sh%d(%s) {", KwFun, t, FnLen))
			e.add(ind+1, fmt.Sprintf("%s \"in%d\";", KwPrint, t))
			n.Line = e.add(ind+1, fmt.Sprintf("%s %s([1, 2]);", KwPrint, FnLen))
			e.add(ind+1, fmt.Sprintf("%s \"after%d\";", KwPrint, t))
			e.add(ind, "}")
			e.add(ind, fmt.Sprintf("sh%d(5);", t))
		case "warm1-user-clock", "warm1-builtin-clock", "warm1-user-h2", "warm1-builtin-pow", "warm1-user-array", "warm0-clock-h1", "warm0-user-abs", "warm0-clock-nil":
			parts := strings.Split(f.Stmt, "-")
			good := map[string]string{"user": "h1", "builtin": FnAbs, "clock": FnClock}[parts[1]]
			bad := map[string]string{"clock": FnClock, "h2": "h2", "pow": FnPow, "array": "arr0", "h1": "h1", "abs": FnAbs, "nil": "nil"}[parts[2]]
			arg := "1"
			if parts[0] == "warm0" {
				arg = ""
				if parts[1] == "user" {
					e.add(ind, fmt.Sprintf("%s wz%d() { %s 0; }", KwFun, t, KwReturn))
					good = fmt.Sprintf("wz%d", t)
				}
			}
			e.add(ind, fmt.Sprintf("%s ws%d(f) {", KwFun, t))
			n.Line = e.add(ind+1, fmt.Sprintf("%s f(%s);", KwReturn, arg))
			e.add(ind, "}")
			e.add(ind, fmt.Sprintf("ws%d(%s);", t, good))
			e.add(ind, fmt.Sprintf("ws%d(%s);", t, good))
			e.add(ind, fmt.Sprintf("ws%d(%s);", t, bad))
		case "return-multiline":
			n.Line = e.add(ind, KwReturn+" (\n  5 +\n  6\n);")
		case "break-in-func", "continue-in-func", "break-in-func-if":
			// a break / continue in a function body that is not inside a loop of that body
			kw := KwBreak
			if f.Stmt == "continue-in-func" {
				kw = KwContinue
			}
			e.add(ind, fmt.Sprintf("%s bf%d() {", KwFun, t))
			e.add(ind+1, fmt.Sprintf("%s \"in%d\";", KwPrint, t))
			if f.Stmt == "break-in-func-if" {
				e.add(ind+1, fmt.Sprintf("%s (%s) {", KwIf, KwTrue))
				n.Line = e.add(ind+2, kw+";")
				e.add(ind+1, "}")
			} else {
				n.Line = e.add(ind+1, kw+";")
			}
			e.add(ind+1, fmt.Sprintf("%s \"after%d\";", KwPrint, t))
			e.add(ind, "}")
			e.add(ind, fmt.Sprintf("bf%d();", t))
		case "break":
			n.Line = e.add(ind, KwBreak+";")
		case "continue":
			n.Line = e.add(ind, KwContinue+";")
		case "return":
			n.Line = e.add(ind, KwReturn+";")
		case "returnval":
			n.Line = e.add(ind, KwReturn+" 5;")
		}
		e.faultLine = n.Line
		return
	}
	p := probeText(f.Probe, t)
	if f.Probe == "input" {
		e.strip = append(e.strip, fmt.Sprintf("px%dx", t))
	}
	x := f.Expr
	for _, w := range f.Wraps {
		x = wrapExpr(w, x, p)
	}
	switch f.Ctx {
	case "expr":
		n.Line = e.add(ind, "("+x+");")
	case "print":
		n.Line = e.add(ind, fmt.Sprintf("%s %s;", KwPrint, x))
	case "var":
		n.Line = e.add(ind, fmt.Sprintf("%s v%d = %s;", KwVar, t, x))
	case "assign":
		e.add(ind, fmt.Sprintf("%s v%d = 0;", KwVar, t))
		n.Line = e.add(ind, fmt.Sprintf("v%d = %s;", t, x))
	case "varlist":
		n.Line = e.add(ind, fmt.Sprintf("%s a%d = 1, b%d = %s, c%d = %s;", KwVar, t, t, x, t, p))
	case "return":
		n.Line = e.add(ind, fmt.Sprintf("%s %s;", KwReturn, x))
	case "ml-binary":
		// the fault sits alone on the middle line of a three-line statement
		// (a composition of wrappers is grouped: "!1 + nx" after "1 +" would parse as
		// (1 + !1) + nx and fail one line early, which is the generator's doing)
		if len(f.Wraps) >= 2 {
			x = "(" + x + ")"
		}
		first := e.add(ind, fmt.Sprintf("%s 1 +", KwPrint))
		e.add(ind+1, x+" +")
		e.add(ind+1, "2;")
		n.Line = first + 1
	case "ml-call":
		first := e.add(ind, "h2(")
		e.add(ind+1, x+",")
		e.add(ind+1, p)
		e.add(ind, ");")
		n.Line = first + 1
	case "ml-array":
		first := e.add(ind, fmt.Sprintf("%s [", KwPrint))
		e.add(ind+1, "1,")
		e.add(ind+1, x+",")
		e.add(ind+1, p)
		e.add(ind, "];")
		n.Line = first + 2
	case "ml-object":
		first := e.add(ind, fmt.Sprintf("%s mo%d = {", KwVar, t))
		e.add(ind+1, "ka: 1,")
		e.add(ind+1, "kb: "+x+",")
		e.add(ind+1, "kc: "+p)
		e.add(ind, "};")
		n.Line = first + 2
	case "ml-cond":
		first := e.add(ind, fmt.Sprintf("%s (", KwIf))
		e.add(ind+1, x)
		e.add(ind, ") {")
		e.add(ind+1, fmt.Sprintf("%s \"then%d\";", KwPrint, t))
		e.add(ind, "}")
		n.Line = first + 1
	case "if-cond":
		n.Line = e.add(ind, fmt.Sprintf("%s (%s) {", KwIf, x))
		e.add(ind+1, fmt.Sprintf("%s \"then%d\";", KwPrint, t))
		e.add(ind, fmt.Sprintf("} %s {", KwElse))
		e.add(ind+1, fmt.Sprintf("%s \"else%d\";", KwPrint, t))
		e.add(ind, "}")
	case "elseif-cond":
		e.add(ind, fmt.Sprintf("%s (%s) {", KwIf, KwFalse))
		e.add(ind+1, fmt.Sprintf("%s \"never%d\";", KwPrint, t))
		n.Line = e.add(ind, fmt.Sprintf("} %s %s (%s) {", KwElse, KwIf, x))
		e.add(ind+1, fmt.Sprintf("%s \"then%d\";", KwPrint, t))
		e.add(ind, fmt.Sprintf("} %s {", KwElse))
		e.add(ind+1, fmt.Sprintf("%s \"else%d\";", KwPrint, t))
		e.add(ind, "}")
	case "while-cond":
		n.Line = e.add(ind, fmt.Sprintf("%s (%s) {", KwWhile, x))
		e.add(ind+1, fmt.Sprintf("%s \"wb%d\";", KwPrint, t))
		e.add(ind+1, KwBreak+";")
		e.add(ind, "}")
	case "for-init":
		n.Line = e.add(ind, fmt.Sprintf("%s (%s i%d = %s; i%d < 2; i%d = i%d + 1) {", KwFor, KwVar, t, x, t, t, t))
		e.add(ind+1, fmt.Sprintf("%s \"fb%d\";", KwPrint, t))
		e.add(ind, "}")
	case "for-cond":
		n.Line = e.add(ind, fmt.Sprintf("%s (%s i%d = 0; %s; i%d = i%d + 1) {", KwFor, KwVar, t, x, t, t))
		e.add(ind+1, fmt.Sprintf("%s \"fb%d\";", KwPrint, t))
		e.add(ind+1, KwBreak+";")
		e.add(ind, "}")
	case "for-inc":
		n.Line = e.add(ind, fmt.Sprintf("%s (%s i%d = 0; i%d < 2; %s) {", KwFor, KwVar, t, t, x))
		e.add(ind+1, fmt.Sprintf("%s \"fb%d\";", KwPrint, t))
		e.add(ind, "}")
	}
	e.faultLine = n.Line
}

// evaluator of the skeleton (the reference model): no expressions, no
// environment, no error handling — only static control flow.

type skEval struct {
	out      strings.Builder
	faulted  bool
	inputs   int // ইনপুট calls executed so far
	funcs    map[string]*skNode
	twin     bool
	stopAt   int // env-injected: the (stopAt)-th dynamic input call fails (1-based); 0 = never
	stopLine int
	steps    int
}

func (v *skEval) run(ns []*skNode) {
	for _, n := range ns {
		if v.faulted {
			return
		}
		v.one(n)
	}
}

func (v *skEval) one(n *skNode) {
	v.steps++
	switch n.K {
	case "trace":
		fmt.Fprintf(&v.out, "t%d\n", n.Tag)
	case "inprint":
		v.inputs++
		if v.stopAt > 0 && v.inputs == v.stopAt {
			// the prompt is written, then the read fails
			fmt.Fprintf(&v.out, "q%d", n.Tag)
			v.faulted = true
			v.stopLine = n.Line
			return
		}
		fmt.Fprintf(&v.out, "q%d[in%d]\n", n.Tag, v.inputs)
	case "clock", "builtin", "decoy", "mlcomment", "blank", "vardecl", "varlist":
	case "mlstring":
		fmt.Fprintf(&v.out, "m%d\nmid\nend%d\n", n.Tag, n.Tag)
	case "rec":
		v.run(n.Kids)
		for i := 0; i < n.Trips && !v.faulted; i++ {
			fmt.Fprintf(&v.out, "unwind%d\n", n.Tag)
		}
	case "block":
		v.run(n.Kids)
	case "if":
		if n.Cond {
			v.run(n.Kids)
		} else {
			v.run(n.Else)
		}
	case "elseif":
		v.run(n.Kids)
	case "while", "for", "whiletrue", "fornocond":
		for i := 0; i < n.Trips && !v.faulted; i++ {
			v.run(n.Kids)
		}
	case "funcdef":
		v.funcs[n.Name] = n
	case "call":
		fn := v.funcs[n.Name]
		if n.Style == "forinc" {
			fmt.Fprintf(&v.out, "fi%d\n", n.Tag)
		}
		v.run(fn.Kids)
		if !v.faulted && n.Style == "objlit" {
			v.run(fn.Kids) // the literal calls it twice
		}
		if !v.faulted {
			switch n.Style {
			case "forcond":
				fmt.Fprintf(&v.out, "fc%d\n", n.Tag)
			case "index":
				v.out.WriteString("1\n")
			case "logical":
				fmt.Fprintf(&v.out, "lg%d\n", n.Tag)
			case "retwrap":
				v.out.WriteString("nil\n")
			}
		}
		if !v.faulted && n.Style == "print" {
			v.out.WriteString("nil\n")
		}
		if !v.faulted && n.Style == "cond" {
			fmt.Fprintf(&v.out, "celse%d\n", n.Tag)
		}
	case "fault":
		if v.twin {
			v.out.WriteString("twin\n")
			return
		}
		if n.F.Stmt == "" && n.F.Ctx == "for-inc" {
			fmt.Fprintf(&v.out, "fb%d\n", n.Tag)
		}
		switch n.F.Stmt {
		case "redecl-param", "redecl-nil-param", "redecl-self", "shadow-builtin-call", "break-in-func", "continue-in-func", "break-in-func-if":
			fmt.Fprintf(&v.out, "in%d\n", n.Tag)
		}
		v.faulted = true
	}
}

// ---------------------------------------------------------------- generation

func c06Prelude() []string {
	return []string{
		fmt.Sprintf("%s h1(a) { %s a; }", KwFun, KwReturn),
		fmt.Sprintf("%s h2(a, b) { %s nil; }", KwFun, KwReturn),
		fmt.Sprintf("%s z0(a) { %s 0; }", KwFun, KwReturn),
		fmt.Sprintf("%s apply(f) { %s f(); }", KwFun, KwReturn),
		fmt.Sprintf("%s arr0 = [1, 2, 3];", KwVar),
		fmt.Sprintf("%s obj0 = {k: 1};", KwVar),
	}
}

// fillers: fault-free effectful statements
func (b *skBuilder) filler(s Src, depth int, inFunc bool) []*skNode {
	n := s.Int("nfill", 0, 2)
	var out []*skNode
	for i := 0; i < n; i++ {
		out = append(out, b.fillOne(s, depth, inFunc)...)
	}
	return out
}

func (b *skBuilder) fillOne(s Src, depth int, inFunc bool) []*skNode {
	max := 14
	if depth <= 0 {
		max = 6
	}
	k := s.Int("fill", 0, max)
	switch k {
	case 4, 5, 6:
		if k == 4 {
			return []*skNode{{K: "mlstring", Tag: b.tag()}}
		}
		if k == 5 {
			return []*skNode{{K: "mlcomment", Tag: b.tag()}}
		}
		switch s.Int("fill6", 0, 2) {
		case 0:
			return []*skNode{{K: "blank", Tag: b.tag()}}
		case 1:
			return []*skNode{{K: "vardecl", Tag: b.tag()}}
		default:
			return []*skNode{{K: "varlist", Tag: b.tag()}}
		}
	case 12:
		return []*skNode{{K: "whiletrue", Tag: b.tag(), Trips: s.Int("trips", 1, 3), Kids: b.filler(s, depth-1, inFunc)}}
	case 13:
		return []*skNode{{K: "fornocond", Tag: b.tag(), Trips: s.Int("trips", 0, 3), Kids: b.filler(s, depth-1, inFunc)}}
	case 14:
		t := b.tag()
		return []*skNode{{K: "rec", Tag: t, Name: fmt.Sprintf("rec%d", t), Trips: s.Int("depth", 0, 2), Kids: b.filler(s, depth-1, true)}}
	}
	if k >= 7 {
		k -= 3
	}
	switch k {
	case 0, 1:
		return []*skNode{{K: "trace", Tag: b.tag()}}
	case 2:
		return []*skNode{{K: "inprint", Tag: b.tag()}}
	case 3:
		if Bool(s, "clk") {
			return []*skNode{{K: "clock", Tag: b.tag()}}
		}
		return []*skNode{{K: "builtin", Tag: b.tag()}}
	case 4:
		return []*skNode{{K: "block", Tag: b.tag(), Kids: b.filler(s, depth-1, inFunc)}}
	case 5:
		return []*skNode{{K: "if", Tag: b.tag(), Cond: Bool(s, "cond"), Kids: b.filler(s, depth-1, inFunc), Else: b.filler(s, depth-1, inFunc)}}
	case 6:
		return []*skNode{{K: "while", Tag: b.tag(), Trips: s.Int("trips", 0, 3), Kids: b.filler(s, depth-1, inFunc)}}
	case 7:
		return []*skNode{{K: "for", Tag: b.tag(), Trips: s.Int("trips", 0, 3), Kids: b.filler(s, depth-1, inFunc)}}
	case 8:
		t := b.tag()
		name := fmt.Sprintf("g%d", t)
		def := &skNode{K: "funcdef", Tag: t, Name: name, Kids: b.filler(s, depth-1, true)}
		out := []*skNode{def}
		calls := s.Int("ncalls", 0, 2)
		for i := 0; i < calls; i++ {
			out = append(out, &skNode{K: "call", Tag: b.tag(), Name: name, Style: Pick(s, "style", c06CallStyles)})
		}
		return out
	default:
		return []*skNode{{K: "decoy", Tag: b.tag()}}
	}
}

// wrapIn puts inner (which contains the fault) into one enclosing construct,
// surrounded by fillers before and probes after.
func (b *skBuilder) wrapIn(s Src, enc string, inner []*skNode, depth int, inFunc bool) []*skNode {
	body := append(b.filler(s, depth, inFunc || strings.HasPrefix(enc, "func")), inner...)
	body = append(body, b.after(s, depth, inFunc || strings.HasPrefix(enc, "func"))...)
	t := b.tag()
	switch enc {
	case "block":
		return []*skNode{{K: "block", Tag: t, Kids: body}}
	case "if-then":
		return []*skNode{{K: "if", Tag: t, Cond: true, Kids: body, Else: []*skNode{{K: "trace", Tag: b.tag()}}}}
	case "if-else":
		return []*skNode{{K: "if", Tag: t, Cond: false, Kids: []*skNode{{K: "trace", Tag: b.tag()}}, Else: body}}
	case "elseif":
		return []*skNode{{K: "elseif", Tag: t, Kids: body}}
	case "while":
		return []*skNode{{K: "while", Tag: t, Trips: s.Int("trips", 1, 3), Kids: body}}
	case "for":
		return []*skNode{{K: "for", Tag: t, Trips: s.Int("trips", 1, 3), Kids: body}}
	case "while-true":
		return []*skNode{{K: "whiletrue", Tag: t, Trips: s.Int("trips", 1, 3), Kids: body}}
	case "for-nocond":
		return []*skNode{{K: "fornocond", Tag: t, Trips: s.Int("trips", 1, 3), Kids: body}}
	case "func-rec":
		return []*skNode{{K: "rec", Tag: t, Name: fmt.Sprintf("rec%d", t), Trips: s.Int("depth", 1, 3), Kids: body}}
	default: // func, func-print, func-var, func-cond, func-arg, func-whilecond
		name := fmt.Sprintf("fn%d", t)
		style := "stmt"
		if enc != "func" {
			style = strings.TrimPrefix(enc, "func-")
		}
		return []*skNode{
			{K: "funcdef", Tag: t, Name: name, Kids: body},
			{K: "call", Tag: b.tag(), Name: name, Style: style},
		}
	}
}

// after: effectful statements that follow the fault at some level; they must
// never happen. At least one, so that "nothing afterwards" is always tested.
func (b *skBuilder) after(s Src, depth int, inFunc bool) []*skNode {
	out := []*skNode{}
	kinds := []string{"trace", "inprint", "clock", "builtin"}
	r := s.Int("afterrot", 0, 3)
	for i := 0; i < 4; i++ {
		out = append(out, &skNode{K: kinds[(i+r)%4], Tag: b.tag()})
	}
	n := s.Int("nafter", 0, 2)
	for i := 0; i < n; i++ {
		out = append(out, b.fillOne(s, depth-1, inFunc)...)
	}
	return out
}

type c06Plan struct {
	lead  int // blank / comment lines before the first statement of the file
	tty   int // which standard streams look like terminals
	cyclic bool // the prelude also defines cyc (an object containing itself) and carr (an array containing itself)
	chain []string
	fault skFault
	decoy bool
	second bool
}

func c06DrawFault(s Src, chain []string) skFault {
	inFunc, inLoop := false, false
	for _, c := range chain {
		if strings.HasPrefix(c, "func") {
			inFunc = true
		}
		if c == "while" || c == "for" || c == "while-true" || c == "for-nocond" {
			inLoop = true
		}
	}
	var f skFault
	if Chance(s, "stmtfault", 1, 7) {
		st := Pick(s, "stmtkind", c06StmtFaults)
		// stray break/continue/return only where they are stray: not inside a loop / function
		ok := true
		switch st {
		case "break", "continue":
			ok = !inLoop && !inFunc
		case "return", "returnval", "return-multiline":
			ok = !inFunc // a return inside a top-level loop is still outside of any function
		}
		if ok {
			f.Stmt = st
			f.Kind = "stmt-" + st
			return f
		}
	}
	fk := Pick(s, "faultkind", c06ExprFaults)
	f.Kind, f.Expr = fk.name, fk.expr
	f.Ctx = Pick(s, "stmtctx", c06StmtCtx)
	if f.Ctx == "return" && !inFunc {
		f.Ctx = "print"
	}
	nw := s.Int("nwraps", 0, 2)
	for i := 0; i < nw; i++ {
		f.Wraps = append(f.Wraps, Pick(s, "wrap", c06Wraps))
	}
	f.Probe = Pick(s, "probe", c06Probes)
	return f
}

func c06Build(plan c06Plan, s Src, depth int) (prog []*skNode) {
	b := &skBuilder{}
	inFunc := false
	inner := []*skNode{{K: "fault", Tag: b.tag(), F: &plan.fault}}
	for i := len(plan.chain) - 1; i >= 0; i-- {
		encInFunc := false
		for _, c := range plan.chain[:i] {
			if strings.HasPrefix(c, "func") {
				encInFunc = true
			}
		}
		inner = b.wrapIn(s, plan.chain[i], inner, depth, encInFunc)
	}
	prog = append(prog, b.filler(s, depth, inFunc)...)
	if plan.decoy {
		prog = append(prog, &skNode{K: "decoy", Tag: b.tag()})
	}
	prog = append(prog, &skNode{K: "trace", Tag: b.tag()})
	prog = append(prog, inner...)
	prog = append(prog, b.after(s, depth, false)...)
	if plan.second {
		f2 := skFault{Kind: "second", Expr: "nx2", Ctx: "print"}
		prog = append(prog, &skNode{K: "fault", Tag: b.tag(), F: &f2})
	}
	return prog
}

func c06Render(prog []*skNode, twin bool) (text string, faultLine int, strip []string) {
	return c06RenderLead(prog, twin, 0)
}

var c06CyclicPrelude bool

func c06RenderLead(prog []*skNode, twin bool, lead int) (text string, faultLine int, strip []string) {
	e := &skEmit{twin: twin}
	for i := 0; i < lead; i++ {
		if i%3 == 2 {
			e.add(0, "   ")
		} else {
			e.add(0, "")
		}
	}
	for _, l := range c06Prelude() {
		e.add(0, l)
	}
	if c06CyclicPrelude {
		e.add(0, fmt.Sprintf("%s cyc = {a: 1};", KwVar))
		e.add(0, "cyc.self = cyc;")
		e.add(0, fmt.Sprintf("%s carr = [1, 2];", KwVar))
		e.add(0, "carr[0] = carr;")
	}
	// the planted fault is the first fault node in source order; a "second"
	// fault comes later and must not overwrite faultLine
	e.emitAll(prog, 0)
	fl := 0
	var find func(ns []*skNode)
	find = func(ns []*skNode) {
		for _, n := range ns {
			if fl != 0 {
				return
			}
			if n.K == "fault" {
				fl = n.Line
				return
			}
			find(n.Kids)
			find(n.Else)
		}
	}
	find(prog)
	return strings.Join(e.lines, "\n") + "\n", fl, e.strip
}

func c06Expected(prog []*skNode, twin bool, stopAt int) (stdout string, faulted bool, inputs int, stopLine int) {
	v := &skEval{funcs: map[string]*skNode{}, twin: twin, stopAt: stopAt}
	v.run(prog)
	return v.out.String(), v.faulted, v.inputs, v.stopLine
}

func c06Stdin(n int) string {
	var b strings.Builder
	for i := 1; i <= n; i++ {
		fmt.Fprintf(&b, "in%d\n", i)
	}
	return b.String()
}

func c06Sig(plan c06Plan) string {
	f := plan.fault
	ch := "top"
	if len(plan.chain) > 0 {
		ch = "top>" + strings.Join(plan.chain, ">")
	}
	if f.Stmt != "" {
		return fmt.Sprintf("%s @ %s", f.Kind, ch)
	}
	w := "-"
	if len(f.Wraps) > 0 {
		w = strings.Join(f.Wraps, ">")
	}
	return fmt.Sprintf("%s @ %s / %s / %s / probe=%s", f.Kind, ch, f.Ctx, w, f.Probe)
}

func c06Case(plan c06Plan, s Src, depth int, tag string) *Case {
	prog := c06Build(plan, s, depth)
	c06CyclicPrelude = plan.cyclic
	defer func() { c06CyclicPrelude = false }()
	twinText, _, _ := c06RenderLead(prog, true, plan.lead)
	// rendered last: emit assigns n.Line, the non-twin lines are the ones the oracle needs
	text, fl, strip := c06RenderLead(prog, false, plan.lead)
	want, faulted, _, _ := c06Expected(prog, false, 0)
	twinWant, _, twinInputs, _ := c06Expected(prog, true, 0)
	if !faulted {
		panic("c06: generator bug: the planted fault is not reached")
	}
	stdin := c06Stdin(twinInputs + 3)
	cs := &Case{Prop: "C06", Kind: "planted", Sig: c06Sig(plan), Program: text, FaultKind: plan.fault.Kind, Notes: []string{tag}}
	cs.Runs = []Run{
		{Role: "fault", Cfg: scriptCfg(text, stdin)},
		{Role: "twin", Cfg: scriptCfg(twinText, stdin)},
	}
	cs.Runs[0].Cfg.TTY, cs.Runs[1].Cfg.TTY = plan.tty, plan.tty
	cs.ExpectStdout = ptrS(want)
	cs.ExpectErrLine = fl
	cs.StripTokens = strip
	cs.Aux = &Aux{C06: &C06Expect{TwinStdout: twinWant, TwinFaulted: false, Decoy: plan.decoy, Second: plan.second}}
	return cs
}

type C06Expect struct {
	TwinStdout  string `json:"twin_stdout"`
	TwinFaulted bool   `json:"twin_faulted,omitempty"`
	Decoy       bool   `json:"decoy,omitempty"`
	Second      bool   `json:"second,omitempty"`
	EnvLine     int    `json:"env_line,omitempty"`
	EnvKind     string `json:"env_kind,omitempty"`
}

// ---------------------------------------------------------------- systematic table

// zeroSrc answers every draw with its lower bound: minimal fillers.
type zeroSrc struct{}

func (zeroSrc) Int(label string, lo, hi int) int { return lo }

func c06Systematic(tier string) []*Case {
	var out []*Case
	encl := append([]string{""}, c06Enclosing...)
	// every expression fault kind x every statement context x every enclosing construct
	for _, fk := range c06ExprFaults {
		for _, ctx := range c06StmtCtx {
			for _, enc := range encl {
				if ctx == "return" && !strings.HasPrefix(enc, "func") {
					continue
				}
				plan := c06Plan{fault: skFault{Kind: fk.name, Expr: fk.expr, Ctx: ctx, Probe: "input"}}
				if enc != "" {
					plan.chain = []string{enc}
				}
				if len(out)%7 == 3 {
					plan.lead = 1 + len(out)%4
				}
				if len(out)%5 == 2 {
					plan.tty = []int{7, 4, 6}[len(out)%3]
				}
				out = append(out, c06Case(plan, zeroSrc{}, 0, "table:ctx"))
			}
		}
	}
	// every expression fault kind x every wrapper x probe kind, at top level and in a loop / function
	for i, fk := range c06ExprFaults {
		for j, w := range c06Wraps {
			for _, enc := range []string{"", "while", "func-print", "while-true", "func-rec"} {
				plan := c06Plan{fault: skFault{Kind: fk.name, Expr: fk.expr, Ctx: []string{"print", "expr", "var"}[(i+j)%3], Wraps: []string{w}, Probe: c06Probes[(i+j)%3]}}
				if enc != "" {
					plan.chain = []string{enc}
				}
				out = append(out, c06Case(plan, zeroSrc{}, 0, "table:wrap"))
			}
		}
	}
	// statement-kind faults x enclosing constructs where they are faults
	for _, st := range c06StmtFaults {
		for _, enc := range encl {
			stray := !strings.HasPrefix(st, "redecl") && !strings.Contains(st, "-in-func") && st != "shadow-builtin-call" && !strings.HasPrefix(st, "warm")
			if strings.HasPrefix(st, "return") && (enc == "while" || enc == "for" || enc == "while-true" || enc == "for-nocond") {
				stray = false // a return inside a top-level loop is stray as well: keep it
			}
			if stray && (enc == "while" || enc == "for" || enc == "while-true" || enc == "for-nocond" || strings.HasPrefix(enc, "func")) {
				continue
			}
			plan := c06Plan{fault: skFault{Kind: "stmt-" + st, Stmt: st}}
			if enc != "" {
				plan.chain = []string{enc}
			}
			out = append(out, c06Case(plan, zeroSrc{}, 0, "table:stmt"))
		}
	}
	// every confirmed built-in misuse, at top level and inside a function called from a loop
	for i, bm := range c06BuiltinMisuse {
		expr := bm.fn + "(" + bm.args + ")"
		for _, chain := range [][]string{nil, {"for", "func"}} {
			plan := c06Plan{chain: chain, fault: skFault{Kind: "builtin-misuse", Expr: expr, Ctx: []string{"print", "expr", "var"}[i%3], Probe: c06Probes[i%3]}}
			out = append(out, c06Case(plan, zeroSrc{}, 0, "table:builtin-misuse"))
		}
	}
	// every confirmed operator misuse, rotating through contexts
	for i, expr := range c06OperatorMisuse {
		chains := [][]string{nil, {"while"}, {"func-print"}, {"if-then", "for"}, {"func-rec"}}
		plan := c06Plan{chain: chains[i%len(chains)], fault: skFault{Kind: "operator-misuse", Expr: expr, Ctx: c06StmtCtx[i%5], Probe: c06Probes[i%3]}}
		if i%4 == 0 {
			plan.fault.Wraps = []string{c06Wraps[i%len(c06Wraps)]}
		}
		out = append(out, c06Case(plan, zeroSrc{}, 0, "table:operator-misuse"))
	}
	// every confirmed misuse of a run-time-built non-numeric string as an operand
	for i, expr := range c06StringOperandMisuse {
		chains := [][]string{nil, {"for"}, {"func-print"}, {"if-else", "while"}, {"func-rec"}}
		plan := c06Plan{chain: chains[i%len(chains)], fault: skFault{Kind: "string-operand-misuse", Expr: expr, Ctx: c06StmtCtx[i%5], Probe: c06Probes[i%3]}}
		if i%3 == 0 {
			plan.fault.Wraps = []string{c06Wraps[i%len(c06Wraps)]}
		}
		out = append(out, c06Case(plan, zeroSrc{}, 0, "table:string-operand-misuse"))
	}
	// faults whose operand is a value that contains itself (anything that renders the
	// operand for the diagnostic must cope): run in processes of their own
	for i, expr := range []string{"(-cyc)", "(cyc + 1)", "(1 - cyc)", "(cyc < 1)", "(~cyc)", "(1 & cyc)", FnSqrt + "(cyc)", FnLen + "(cyc)", FnMax + "(cyc, 1)", "cyc()", "cyc[0]", "(carr * 2)", FnAbs + "(carr)"} {
		plan := c06Plan{fault: skFault{Kind: "cyclic-operand", Expr: expr, Ctx: []string{"print", "expr", "var"}[i%3], Probe: "clock"}, cyclic: true}
		if i%2 == 1 {
			plan.chain = []string{"func-print"}
		}
		cs := c06Case(plan, zeroSrc{}, 0, "table:cyclic-operand")
		for r := range cs.Runs {
			cs.Runs[r].Role = "fresh-process:" + cs.Runs[r].Role
		}
		out = append(out, cs)
	}
	// programs that perform no invalid operation: no diagnostic, status 0
	cleanProgs := map[string]string{
		"empty": "", "newline": "\n", "blank-lines": "\n\n   \n", "line-comment": "// nothing here\n", "block-comment": "/* nothing\n here */\n",
		"only-functions": fmt.Sprintf("%s f() { %s nx; }\n%s g(a) { %s a / 0; }\n", KwFun, KwPrint, KwFun, KwReturn),
		"empty-block": "{ }\n", "dead-fault": fmt.Sprintf("%s (%s) { %s nx; }\n%s \"ok\";\n", KwIf, KwFalse, KwPrint, KwPrint),
		"short-circuit": fmt.Sprintf("%s %s %s nx;\n%s %s %s nx;\n", KwPrint, KwTrue, KwOr, KwPrint, KwFalse, KwAnd),
		"zero-trip-loops": fmt.Sprintf("%s (%s) { %s nx; }\n%s (%s i = 0; i < 0; i = i + 1) { nx; }\n%s \"ok\";\n", KwWhile, KwFalse, KwPrint, KwFor, KwVar, KwPrint),
	}
	cleanProgs["many-returning-calls"] = fmt.Sprintf("%s inc(n) { %s n + 1; }\n%s c = 0;\n%s (%s i = 0; i < 2500; i = i + 1) { c = inc(c); }\n%s c;\n", KwFun, KwReturn, KwVar, KwFor, KwVar, KwPrint)
	cleanProgs["fib-16"] = fmt.Sprintf("%s fib(n) { %s (n < 2) { %s n; } %s fib(n - 1) + fib(n - 2); }\n%s fib(16);\n", KwFun, KwIf, KwReturn, KwReturn, KwPrint)
	cleanProgs["deep-recursion-600"] = fmt.Sprintf("%s down(n) { %s (n > 0) { %s down(n - 1); } %s 0; }\n%s down(600);\n", KwFun, KwIf, KwReturn, KwReturn, KwPrint)
	cleanProgs["many-void-calls"] = fmt.Sprintf("%s noop() { }\n%s (%s i = 0; i < 2500; i = i + 1) { noop(); }\n%s \"ok\";\n", KwFun, KwFor, KwVar, KwPrint)
	cleanProgs["many-objects"] = fmt.Sprintf("%s (%s i = 0; i < 1500; i = i + 1) { %s o = {a: i, b: [i]}; o.a = o.a + 1; }\n%s \"ok\";\n", KwFor, KwVar, KwVar, KwPrint)
	cleanProgs["param-shadows-builtin"] = fmt.Sprintf("%s f(%s) { %s %s - 1; }\nf(5);\n", KwFun, FnLen, KwPrint, FnLen)
	cleanProgs["varlist-in-loop"] = fmt.Sprintf("%s (%s i = 0; i < 3; i = i + 1) { %s a = i, b = a + 1; %s b; }\n", KwFor, KwVar, KwVar, KwPrint)
	cleanProgs["decl-in-while"] = fmt.Sprintf("%s n = 0;\n%s (n < 3) { %s x = n; %s g() { %s x; } n = n + 1; %s g() + 1; }\n", KwVar, KwWhile, KwVar, KwFun, KwReturn, KwPrint)
	cleanProgs["shadowing"] = fmt.Sprintf("%s x = 1;\n{ %s x = 2; { %s x = 3; %s x; } %s x; }\n%s x;\n%s f(x) { { %s x = 9; } %s x; }\n%s f(4);\n", KwVar, KwVar, KwVar, KwPrint, KwPrint, KwPrint, KwFun, KwVar, KwReturn, KwPrint)
	cleanProgs["return-in-while"] = fmt.Sprintf("%s f() { %s n = 0; %s (%s) { n = n + 1; %s (n == 3) { %s n; } } }\n%s f();\n", KwFun, KwVar, KwWhile, KwTrue, KwIf, KwReturn, KwPrint)
	cleanProgs["return-in-for"] = fmt.Sprintf("%s f() { %s (%s i = 0; ; i = i + 1) { %s (i == 4) { %s i; } } }\n%s f();\n", KwFun, KwFor, KwVar, KwIf, KwReturn, KwPrint)
	cleanProgs["return-in-nested-loops"] = fmt.Sprintf("%s f() { %s (%s i = 0; i < 3; i = i + 1) { %s j = 0; %s (j < 3) { j = j + 1; %s (i == 1) { %s i * 10 + j; } } } %s 99; }\n%s f();\n", KwFun, KwFor, KwVar, KwVar, KwWhile, KwIf, KwReturn, KwReturn, KwPrint)
	cleanProgs["break-continue"] = fmt.Sprintf("%s (%s i = 0; i < 6; i = i + 1) { %s (i == 1) { %s; } %s (i == 4) { %s; } %s i; }\n%s n = 0;\n%s (n < 5) { n = n + 1; %s (n == 2) { %s; } %s n; }\n", KwFor, KwVar, KwIf, KwContinue, KwIf, KwBreak, KwPrint, KwVar, KwWhile, KwIf, KwContinue, KwPrint)
	cleanProgs["array-loop-with-len"] = fmt.Sprintf("%s a = [10, 20, 30];\n%s (%s i = 0; i < %s(a); i = i + 1) { %s a[i]; }\n%s %s(a) + 1;\n%s a[%s(a) - 1];\n", KwVar, KwFor, KwVar, FnLen, KwPrint, KwPrint, FnLen, KwPrint, FnLen)
	cleanProgs["builtin-results-as-numbers"] = fmt.Sprintf("%s %s([1, 2]) * 2 + %s(4) - %s(2.4) + %s(-3) + %s(2, 3) + %s(1, 9) - %s(4, 2);\n%s (%s([1]) == 1) { %s \"eq\"; }\n", KwPrint, FnLen, FnSqrt, FnRound, FnAbs, FnPow, FnMax, FnMin, KwIf, FnLen, KwPrint)
	cleanProgs["60000-returning-calls"] = fmt.Sprintf("%s inc(n) { %s n + 1; }\n%s c = 0;\n%s (%s i = 0; i < 60000; i = i + 1) { c = inc(c); }\n%s c;\n", KwFun, KwReturn, KwVar, KwFor, KwVar, KwPrint)
	cleanProgs["fib-24"] = fmt.Sprintf("%s fib(n) { %s (n < 2) { %s n; } %s fib(n - 1) + fib(n - 2); }\n%s fib(24);\n", KwFun, KwIf, KwReturn, KwReturn, KwPrint)
	cleanProgs["leading-blank-lines"] = fmt.Sprintf("\n\n   \n%s \"ok\";\n", KwPrint)
	{
		var b strings.Builder
		for i := 0; i < 3000; i++ {
			fmt.Fprintf(&b, "%s sv%d = %d;\n", KwVar, i, i)
		}
		fmt.Fprintf(&b, "%s sv0 + sv1499 + sv2999;\n", KwPrint)
		cleanProgs["3000-variables-in-one-scope"] = b.String()
		var ps, as []string
		for i := 0; i < 255; i++ {
			ps = append(ps, fmt.Sprintf("p%d", i))
			as = append(as, fmt.Sprint(i))
		}
		cleanProgs["255-parameters"] = fmt.Sprintf("%s wide(%s) { %s p0 + p254; }\n%s wide(%s);\n", KwFun, strings.Join(ps, ", "), KwReturn, KwPrint, strings.Join(as, ", "))
	}
	cleanProgs["array-of-20000"] = fmt.Sprintf("%s arr = [];\n%s (%s i = 0; i < 20000; i = i + 1) { arr = %s(arr, i); }\n%s %s(arr);\n%s arr[19999] + arr[0];\n", KwVar, KwFor, KwVar, FnAppend, KwPrint, FnLen, KwPrint)
	cleanProgs["numbers-at-the-edges"] = fmt.Sprintf("%s big = 9007199254740992;\n%s big + 1 == big;\n%s x = 2 ** 1023;\n%s inf = x * 2;\n%s inf > x;\n%s nan = inf - inf;\n%s nan == nan;\n%s tiny = 2 ** -1074;\n%s tiny > 0;\n%s tiny / 2 == 0;\n%s %s(inf) > 0;\n%s %s(nan, 1) == 1 %s %s;\n", KwVar, KwPrint, KwVar, KwVar, KwPrint, KwVar, KwPrint, KwVar, KwPrint, KwPrint, KwPrint, FnAbs, KwPrint, FnMax, KwOr, KwTrue)
	cleanProgs["60000-void-calls"] = fmt.Sprintf("%s noop() { }\n%s proc(x) { %s y = x; }\n%s (%s i = 0; i < 60000; i = i + 1) { noop(); proc(i); }\n%s \"ok\";\n", KwFun, KwFun, KwVar, KwFor, KwVar, KwPrint)
	cleanProgs["long-while"] = fmt.Sprintf("%s n = 0;\n%s (n < 5000) { n = n + 1; }\n%s n;\n", KwVar, KwWhile, KwPrint)
	for _, name := range sortedStrKeys(cleanProgs) {
		prog := cleanProgs[name]
		want := map[string]string{"dead-fault": "ok\n", "short-circuit": "true\nfalse\n", "zero-trip-loops": "ok\n", "many-returning-calls": "2500\n", "fib-16": "987\n",
			"deep-recursion-600": "0\n", "many-void-calls": "ok\n", "many-objects": "ok\n", "long-while": "5000\n",
			"3000-variables-in-one-scope": "4498\n", "255-parameters": "254\n", "array-of-20000": "20000\n19999\n", "numbers-at-the-edges": "true\ntrue\nfalse\ntrue\ntrue\ntrue\ntrue\n", "60000-returning-calls": "60000\n", "60000-void-calls": "ok\n", "fib-24": "46368\n", "leading-blank-lines": "ok\n", "array-loop-with-len": "10\n20\n30\n4\n30\n", "builtin-results-as-numbers": "22\neq\n", "return-in-while": "3\n", "return-in-for": "4\n", "return-in-nested-loops": "11\n", "break-continue": "0\n2\n3\n1\n3\n4\n5\n",
			"param-shadows-builtin": "4\n", "varlist-in-loop": "1\n2\n3\n", "decl-in-while": "1\n2\n3\n", "shadowing": "3\n2\n1\n4\n"}[name]
		ccfg := scriptCfg(prog, "")
		ccfg.Budget = 60000000
		cs := &Case{Prop: "C06", Kind: "clean", Sig: "clean:" + name, Program: prog, FaultKind: "none", Runs: []Run{{Role: "clean", Cfg: ccfg}}}
		cs.ExpectStdout = ptrS(want)
		cs.Aux = &Aux{C06: &C06Expect{}}
		out = append(out, cs)
	}
	// decoy and second fault
	for _, fk := range c06ExprFaults[:6] {
		out = append(out, c06Case(c06Plan{fault: skFault{Kind: fk.name, Expr: fk.expr, Ctx: "print", Probe: "clock"}, decoy: true}, zeroSrc{}, 0, "table:decoy"))
		out = append(out, c06Case(c06Plan{fault: skFault{Kind: fk.name, Expr: fk.expr, Ctx: "var", Probe: "clock"}, second: true, chain: []string{"for"}}, zeroSrc{}, 0, "table:second"))
	}
	return out
}

// ---------------------------------------------------------------- random

func c06Random(s Src, tier string) *Case { return applySched(s, c06Random1(s, tier), true) }

func c06Random1(s Src, tier string) *Case {
	if Chance(s, "envfault", 1, 6) {
		return c06EnvCase(s)
	}
	if Chance(s, "grammar", 1, 4) {
		// any syntactically valid program: if it reports a runtime error, everything stops there
		// and the status is 70; if it does not, the status is 0 (no prediction of what it prints)
		prog := randomEffectfulProgram(s)
		cs := &Case{Prop: "C06", Kind: "grammar", Sig: "grammar", Program: prog, FaultKind: "unknown"}
		cfg := scriptCfg(prog, c06Stdin(40))
		cfg.TTY = drawTTY(s)
		cs.Runs = []Run{{Role: "run", Cfg: cfg}}
		cs.Aux = &Aux{C06: &C06Expect{}}
		return cs
	}
	if Chance(s, "valid", 1, 5) {
		// a program that is valid by construction (typed generation, validprog.go):
		// no diagnostic, status 0, termination
		prog, inputs := validProgram(s)
		cs := &Case{Prop: "C06", Kind: "clean", Sig: "clean:valid-by-construction", Program: prog, FaultKind: "none"}
		cfg := scriptCfg(prog, c06Stdin(inputs+2))
		cfg.Budget = 30000000
		cfg.TTY = drawTTY(s)
		cs.Runs = []Run{{Role: "clean", Cfg: cfg}}
		cs.Aux = &Aux{C06: &C06Expect{}}
		return cs
	}
	var plan c06Plan
	n := s.Int("chainlen", 0, 4)
	for i := 0; i < n; i++ {
		plan.chain = append(plan.chain, Pick(s, "enc", c06Enclosing))
	}
	plan.fault = c06DrawFault(s, plan.chain)
	plan.decoy = Chance(s, "decoy", 1, 5)
	plan.second = Chance(s, "second", 1, 5)
	if Chance(s, "lead", 1, 4) {
		plan.lead = s.Int("nlead", 1, 5)
	}
	plan.tty = drawTTY(s)
	return c06Case(plan, s, 2, "rnd")
}

// c06EnvCase: no planted fault; the environment makes the j-th dynamic ইনপুট
// call fail (end of input, or EIO). Conditional oracle.
func c06EnvCase(s Src) *Case {
	b := &skBuilder{}
	var prog []*skNode
	n := s.Int("ntop", 1, 4)
	for i := 0; i < n; i++ {
		prog = append(prog, b.fillOne(s, 2, false)...)
	}
	prog = append(prog, &skNode{K: "inprint", Tag: b.tag()}, &skNode{K: "trace", Tag: b.tag()})
	text, _, _ := c06Render(prog, true)
	_, _, total, _ := c06Expected(prog, true, 0)
	j := s.Int("failat", 1, total) // the j-th call fails
	want, _, _, stopLine := c06Expected(prog, true, j)
	cs := &Case{Prop: "C06", Kind: "env", Program: text, FaultKind: "env-input"}
	cfg := scriptCfg(text, c06Stdin(j-1))
	kind := "eof"
	if Bool(s, "eio") {
		kind = "eio"
		cfg = scriptCfg(text, c06Stdin(total+1))
		cfg.StdinErrAt = len(c06Stdin(j - 1))
		if Bool(s, "mid") {
			cfg.StdinErrAt += 2
		}
		cfg.StdinErrSticky = Bool(s, "sticky")
	}
	cfg, d := drawDelivery(s, cfg)
	cs.Runs = []Run{{Role: kind + ":" + d, Cfg: cfg}}
	cs.RelaxedFault = kind
	cs.Sig = fmt.Sprintf("env-input-%s @ call %d of %d", kind, j, total)
	cs.ExpectStdout = ptrS(want)
	cs.Aux = &Aux{C06: &C06Expect{EnvLine: stopLine, EnvKind: kind}}
	return cs
}

// ---------------------------------------------------------------- oracle

func init() {
	register(&Property{
		ID:          "C06",
		Level:       "fault_enumeration",
		Systematic:  c06Systematic,
		Random:      c06Random,
		RandomCount: func(tier string) int { return map[string]int{"quick": 4000, "thorough": 1500000}[tier] },
		Eval:        c06Eval,
		Rule: "fault enumeration: one runtime fault of each kind (28 expression kinds, 6 statement kinds) planted at every statement context (12) x every enclosing construct (9) and under every expression wrapper (25) x probe kind, swept completely each run; plus seeded random programs nesting the fault <= 4 constructs deep between random effectful statements, with decoy faults in dead code and second faults later in the text; plus environment-injected faults (the j-th dynamic ইনপুট call hits EOF/EIO). Each program also runs as its fault-free twin. " +
			"distinct_nontrivial counts distinct (fault kind, chain of enclosing constructs, statement context, wrappers, probe kind) signatures whose program executed the fault with at least one effectful statement after it.",
		DistinctSet: "c06_sigs",
		Assumptions: []string{
			"the skeleton evaluator (static control flow only) predicts the output before the fault; it has no expressions and no error handling in it",
			"message wording is not checked, only the line in the first '[line N]'",
			"what ইনপুট does at end of input is unspecified: for environment-injected faults only the conditional form (if a diagnostic appears, everything stops) is demanded",
		},
		Components: map[string]string{
			"whole CLI (main.go, lexer, parser, interpreter, built-ins, utils)": "real code (instrumented copy)",
			"stdin/stdout/stderr/exit/clock/step counter":                          "stub (verifsimrt); total order of events across the three streams comes from the recorder",
		},
		ReachTargets: []string{"reach.fault_inside_loop_inside_function", "reach.probe_in_same_expression", "fault.env_injected_input_failure", "reach.decoy_present", "reach.second_fault_present"},
	})
}

// excessOutput reports a stdout line that occurs more often than the prediction
// for "before the fault" allows. C06 only says that nothing is written after the
// fault; whether the output before it is right is other properties' business, so
// missing or differently rendered lines are not judged here.
func excessOutput(got, allowed string) (string, bool) {
	quota := map[string]int{}
	for _, l := range strings.Split(allowed, "\n") {
		quota[l]++
	}
	for _, l := range strings.Split(got, "\n") {
		if l == "" {
			continue
		}
		if !c06TagLine(l) {
			continue
		}
		quota[l]--
		if quota[l] < 0 {
			return l, true
		}
	}
	return "", false
}

// c06TagLine: lines the generator itself planted (t<k>, q<k>[in<j>], then/else/fb/wb/... tags, twin, unwind, nil)
func c06TagLine(l string) bool {
	for _, p := range []string{"t", "q", "then", "else", "fb", "wb", "fi", "fc", "lg", "cthen", "celse", "cnever", "never", "unwind", "in", "after", "m", "mid", "end", "twin"} {
		if strings.HasPrefix(l, p) {
			return true
		}
	}
	return false
}

func stripTokens(s string, toks []string) string {
	for _, t := range toks {
		s = strings.ReplaceAll(s, t, "")
	}
	return s
}

func c06Eval(cs *Case, ctx *EvalCtx) []Violation {
	obs := ctx.RunAll(cs)
	var vs []Violation
	add := func(run int, class, msg string) {
		vs = append(vs, Violation{Prop: "C06", Class: "C06/" + class, Sig: cs.Sig, Msg: msg, Run: run})
	}
	ax := cs.Aux.C06
	stopCheck := func(i int, o Obs) {
		for _, e := range o.Res.Events {
			if e.Seq <= o.FirstErr {
				continue
			}
			switch e.Kind {
			case "OUT":
				add(i, "out-after-err", fmt.Sprintf("after the first diagnostic %q the program wrote %q to stdout", firstLine(o.Stderr), e.Data))
				return
			case "READ":
				add(i, "read-after-err", fmt.Sprintf("after the first diagnostic %q the program read stdin (%q)", firstLine(o.Stderr), e.Data))
				return
			case "BUILTIN":
				add(i, "builtin-after-err", fmt.Sprintf("after the first diagnostic %q built-in %s was invoked", firstLine(o.Stderr), e.Data))
				return
			}
		}
	}
	if cs.Kind == "grammar" {
		o := obs[0]
		switch {
		case o.Res.Panic != "":
			add(0, "host-panic", "the interpreter panicked: "+o.Res.Panic)
		case o.Res.Budget:
			add(0, "no-termination", "step budget exceeded (generated loops are bounded by construction)")
		case o.ExitStatus() == 65:
			// the generator produced something the front end rejects: not a C06 matter
			if ctx.Stats != nil {
				ctx.Stats.Count("info.generated_program_rejected_by_front_end", 1)
			}
		case o.FirstErr >= 0:
			stopCheck(0, o)
			if o.ExitStatus() != 70 {
				add(0, "exit-status", fmt.Sprintf("a runtime diagnostic was written but the exit status is %d", o.ExitStatus()))
			}
			if _, ln, ok := FirstDiagnostic(o.Stderr); !ok {
				add(0, "wrong-line", fmt.Sprintf("the first diagnostic names no line: %q", firstLine2(o.Stderr)))
			} else if nl := strings.Count(cs.Program, "\n"); ln < 1 || ln > nl {
				add(0, "wrong-line", fmt.Sprintf("the first diagnostic names line %d of a %d-line program: %q", ln, nl, firstLine2(o.Stderr)))
			}
		case o.ExitStatus() != 0:
			add(0, "exit-status", fmt.Sprintf("no diagnostic but exit status %d", o.ExitStatus()))
		}
		if ctx.Stats != nil {
			ctx.Stats.Seen("c06_sigs", "grammar:"+shape(o.Res))
			ctx.Stats.Count("kind.grammar", 1)
		}
		return vs
	}
	if cs.Kind == "clean" {
		o := obs[0]
		switch {
		case o.Res.Panic != "":
			add(0, "host-panic", o.Res.Panic)
		case o.Res.Budget:
			add(0, "no-termination", "step budget exceeded")
		case o.FirstErr >= 0 || o.ExitStatus() != 0:
			add(0, "clean-program-diagnostic", fmt.Sprintf("a program that performs no invalid operation wrote %q / exit %d", o.Stderr, o.ExitStatus()))
		case cs.ExpectStdout != nil && o.Stdout != *cs.ExpectStdout:
			// not C06's claim (it only demands: no diagnostic, status 0): noted, not judged
			if ctx.Stats != nil {
				ctx.Stats.Count("info.clean_program_stdout_differs_from_prediction", 1)
			}
		}
		return vs
	}
	if cs.Kind == "env" {
		o := obs[0]
		if o.Res.Panic != "" {
			add(0, "host-panic", o.Res.Panic)
		} else if o.Res.Budget {
			add(0, "no-termination", "step budget exceeded after an input failure")
		} else if o.FirstErr >= 0 {
			stopCheck(0, o)
			if o.ExitStatus() != 70 {
				add(0, "exit-status", fmt.Sprintf("diagnostic written but exit status %d", o.ExitStatus()))
			}
			if _, ln, ok := FirstDiagnostic(o.Stderr); !ok || ln != ax.EnvLine {
				add(0, "wrong-line", fmt.Sprintf("first diagnostic %q does not name line %d of the failing call", firstLine(o.Stderr), ax.EnvLine))
			}
			if l, bad := excessOutput(o.Stdout, *cs.ExpectStdout); bad {
				add(0, "stdout-after-fault", fmt.Sprintf("stdout=%q contains %q, which is not output that precedes the failing call (%q)", o.Stdout, l, *cs.ExpectStdout))
			}
		} else if o.ExitStatus() != 0 {
			add(0, "exit-status", fmt.Sprintf("no diagnostic but exit status %d", o.ExitStatus()))
		}
		if ctx.Stats != nil {
			ctx.Stats.Count("fault.env_injected_input_failure", 1)
			ctx.Stats.Seen("c06_sigs", cs.Sig)
		}
		return vs
	}

	// planted fault
	o, tw := obs[0], obs[1]
	switch {
	case o.Res.Panic != "":
		add(0, "host-panic", "the interpreter panicked: "+o.Res.Panic)
	case o.Res.Budget:
		add(0, "no-termination", fmt.Sprintf("the program did not finish within %d steps after the fault (stderr starts %q)", o.Res.Ticks, firstLine(o.Stderr)))
	default:
		if o.FirstErr < 0 {
			add(0, "no-diagnostic", fmt.Sprintf("no diagnostic on stderr; stdout=%q exit=%d", o.Stdout, o.ExitStatus()))
		} else {
			if _, ln, ok := FirstDiagnostic(o.Stderr); !ok || ln != cs.ExpectErrLine {
				add(0, "wrong-line", fmt.Sprintf("first diagnostic %q does not name line %d where the fault is", firstLine2(o.Stderr), cs.ExpectErrLine))
			}
			stopCheck(0, o)
		}
		if l, bad := excessOutput(stripTokens(o.Stdout, cs.StripTokens), *cs.ExpectStdout); bad {
			add(0, "stdout-after-fault", fmt.Sprintf("stdout=%q contains %q, which is not output that precedes the fault (%q)", o.Stdout, l, *cs.ExpectStdout))
		}
		if o.ExitStatus() != 70 {
			add(0, "exit-status", fmt.Sprintf("exit status %d, expected 70", o.ExitStatus()))
		}
		if !tw.Res.Budget && tw.Res.Panic == "" && o.Res.Ticks > 20*tw.Res.Ticks+5000 {
			add(0, "no-termination", fmt.Sprintf("%d steps with the fault, %d without", o.Res.Ticks, tw.Res.Ticks))
		}
	}
	// fault-free twin (control group)
	switch {
	case tw.Res.Panic != "":
		add(1, "twin-host-panic", tw.Res.Panic)
	case tw.Res.Budget:
		add(1, "twin-no-termination", "fault-free twin exceeded the step budget")
	case ax.TwinFaulted:
		// the twin still holds the 'second' fault: it must stop there with 70
		if tw.ExitStatus() != 70 {
			add(1, "twin-second-fault", fmt.Sprintf("twin with only the second fault: exit=%d stdout=%q expected 70 / %q", tw.ExitStatus(), tw.Stdout, ax.TwinStdout))
		}
	default:
		if tw.FirstErr >= 0 || tw.ExitStatus() != 0 {
			add(1, "twin-diagnostic", fmt.Sprintf("fault-free program wrote %q / exit %d", tw.Stderr, tw.ExitStatus()))
		}
		if tw.Stdout != ax.TwinStdout && ctx.Stats != nil {
			// what a fault-free program prints is not C06's claim: noted, not judged
			ctx.Stats.Count("info.twin_stdout_differs_from_prediction", 1)
		}
	}
	if ctx.Stats != nil {
		st := ctx.Stats
		st.Seen("c06_sigs", cs.Sig)
		st.Count("fault.planted."+strings.SplitN(cs.FaultKind, "-", 2)[0], 1)
		if strings.Contains(cs.Sig, "func") && (strings.Contains(cs.Sig, "while") || strings.Contains(cs.Sig, "for")) {
			st.Count("reach.fault_inside_loop_inside_function", 1)
		}
		if strings.Contains(cs.Sig, "probe=") && strings.Contains(cs.Sig, " / ") && !strings.Contains(cs.Sig, "/ - /") {
			st.Count("reach.probe_in_same_expression", 1)
		}
		if ax.Decoy {
			st.Count("reach.decoy_present", 1)
		}
		if ax.Second {
			st.Count("reach.second_fault_present", 1)
		}
	}
	return vs
}

func firstLine(s string) string {
	if i := strings.Index(s, "\n"); i >= 0 {
		return s[:i]
	}
	return s
}

func firstLine2(s string) string {
	t, _, _ := FirstDiagnostic(s)
	if len(t) > 200 {
		t = t[:200]
	}
	return t
}

var _ = sim.DefaultBudget

func sortedStrKeys(m map[string]string) []string {
	ks := make([]string, 0, len(m))
	for k := range m {
		ks = append(ks, k)
	}
	sort.Strings(ks)
	return ks
}
