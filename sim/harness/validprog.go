package main

import (
	"fmt"
	"strings"
)

// A generator of programs that are VALID BY CONSTRUCTION: every operation they
// perform is one the language accepts, whatever values flow through it. It is
// typed (numbers, strings, booleans, arrays of numbers with a known length,
// objects with known properties, functions of a known arity) and keeps the
// facts it relies on immutable: an array or object variable is never
// re-bound, indexes are literals or loop counters below the known length,
// divisors are non-zero literals, calls go to functions declared earlier (no
// unbounded recursion), loops are counted. Such a program "performs no invalid
// operation", so by C06 it writes no diagnostic and exits 0, and by C19 its
// status is 0 with empty stderr; what it prints is nobody's business here.
//
// The point is breadth in the direction the fault-planting generator does not
// go: closures that outlive the block, loop iteration or call that created
// them, functions stored in arrays and objects, counters captured by several
// closures, shadowing, nested loops with break/continue, early returns from
// loops, bounded recursion, values of every kind flowing through calls.

type vType int

const (
	vN  vType = iota // number
	vS               // string
	vB               // boolean
	vA               // array of numbers, exact length known
	vO               // object, properties known
	vF0              // function () -> number
	vF1              // function (number) -> number
	vAF              // array of vF1 (any length; only iterated through লেন)
	vFF              // function () -> vF0 (a counter factory)
	vNil
)

type vVar struct {
	name   string
	t      vType
	alen   int               // vA: exact length
	keys   map[string]vType  // vO
	korder []string          // vO: keys in declaration order
	calls  bool              // function: its body calls other functions of the program (such a function is only called from outside function bodies: call chains stay two deep, so running time stays polynomial)
	ro     bool              // loop counter or parameter used as index: never assigned
	below  int               // vN loop counter: value is in [0, below)
}

type vGen struct {
	s      Src
	scopes [][]*vVar
	lines  []string
	ind    int
	n      int
	inLoop int
	inFunc int
	inputs int // top-level straight-line ইনপুট calls
	stmts  int
	madeCall bool // the function body being generated called a function of the program
	noStrRefs bool // generating the right-hand side of an assignment to a string: no references to string variables or properties (s = s + s in a loop doubles the text every time)
	pure   bool // no ইনপুট, no ক্লক (for oracles that compare runs under different clocks)
}

func (g *vGen) emit(format string, a ...interface{}) {
	g.lines = append(g.lines, strings.Repeat("  ", g.ind)+fmt.Sprintf(format, a...))
}

func (g *vGen) push()  { g.scopes = append(g.scopes, nil) }
func (g *vGen) pop()   { g.scopes = g.scopes[:len(g.scopes)-1] }
func (g *vGen) fresh(prefix string) string {
	g.n++
	return fmt.Sprintf("%s%d", prefix, g.n)
}

func (g *vGen) declare(v *vVar) { g.scopes[len(g.scopes)-1] = append(g.scopes[len(g.scopes)-1], v) }

func (g *vGen) inCurrentScope(name string) bool {
	for _, v := range g.scopes[len(g.scopes)-1] {
		if v.name == name {
			return true
		}
	}
	return false
}

// visible returns the variables of type t that a reference resolves to (the
// innermost declaration of each name).
func (g *vGen) visible(t vType) []*vVar {
	seen := map[string]bool{}
	var out []*vVar
	for i := len(g.scopes) - 1; i >= 0; i-- {
		sc := g.scopes[i]
		for j := len(sc) - 1; j >= 0; j-- {
			v := sc[j]
			if seen[v.name] {
				continue
			}
			seen[v.name] = true
			if v.t == t {
				out = append(out, v)
			}
		}
	}
	return out
}

// pickFn picks a callable function of kind t: inside a function body only functions that call
// nobody themselves.
func (g *vGen) pickFn(t vType, label string) *vVar {
	var c []*vVar
	for _, v := range g.visible(t) {
		if g.inFunc > 0 && v.calls {
			continue
		}
		c = append(c, v)
	}
	if len(c) == 0 {
		return nil
	}
	if g.inFunc > 0 {
		g.madeCall = true
	}
	return c[g.s.Int(label, 0, len(c)-1)]
}

func (g *vGen) pickVar(t vType, label string) *vVar {
	vs := g.visible(t)
	if len(vs) == 0 {
		return nil
	}
	return vs[g.s.Int(label, 0, len(vs)-1)]
}

// newName: mostly a fresh name; sometimes the name of a variable of an outer
// scope (shadowing), never one already declared in the current scope. Only a
// plain number, string or boolean is shadowed, and by a variable of the same
// kind: Borno resolves names at run time through the scope chain, so a
// function declared before the shadowing declaration in the same block sees
// the new variable from then on — which is fine for validity as long as the kind
// (and nothing the generator relies on, like a counter's range) changes.
func (g *vGen) newName(prefix string, t vType) string {
	if len(g.scopes) > 1 && (t == vN || t == vS || t == vB) && Chance(g.s, "shadow", 1, 5) {
		var outer []string
		for i := 0; i < len(g.scopes)-1; i++ {
			for _, v := range g.scopes[i] {
				if v.t == t && !v.ro && !g.inCurrentScope(v.name) && g.resolves(v) {
					outer = append(outer, v.name)
				}
			}
		}
		if len(outer) > 0 {
			return outer[g.s.Int("shadowname", 0, len(outer)-1)]
		}
	}
	return g.fresh(prefix)
}

// resolves: v is what its name currently refers to
func (g *vGen) resolves(v *vVar) bool {
	for i := len(g.scopes) - 1; i >= 0; i-- {
		sc := g.scopes[i]
		for j := len(sc) - 1; j >= 0; j-- {
			if sc[j].name == v.name {
				return sc[j] == v
			}
		}
	}
	return false
}

var vNumLits = []string{"0", "1", "2", "3", "7", "10", "0.5", "2.5", "100", "১২", "৩.৫", "1000000", "-1", "-0"}
var vStrLits = []string{"\"\"", "\"a\"", "\"abc\"", "\"x y\"", "\"কলম\"", "\"12\"", "\"100%\"", "\"$\""}
var vObjKeys = []string{"k", "alpha", "beta", "ID", "id", "বয়স", "n", "next"}

func (g *vGen) num(d int) string {
	if d <= 0 {
		if v := g.pickVar(vN, "numvar"); v != nil && Bool(g.s, "usevar") {
			return v.name
		}
		return Pick(g.s, "numlit", vNumLits)
	}
	switch g.s.Int("num", 0, 15) {
	case 0, 1:
		return Pick(g.s, "numlit", vNumLits)
	case 2, 3:
		if v := g.pickVar(vN, "numvar"); v != nil {
			return v.name
		}
		return Pick(g.s, "numlit", vNumLits)
	case 4, 5:
		return "(" + g.num(d-1) + " " + Pick(g.s, "arith", []string{"+", "-", "*"}) + " " + g.num(d-1) + ")"
	case 6:
		return "(" + g.num(d-1) + " " + Pick(g.s, "divop", []string{"/", "%"}) + " " + Pick(g.s, "divisor", []string{"1", "2", "3", "7", "0.5", "-4"}) + ")"
	case 7:
		return "(" + g.num(d-1) + " ** " + Pick(g.s, "expo", []string{"0", "1", "2", "3"}) + ")"
	case 8:
		return "(-" + g.num(d-1) + ")"
	case 9:
		if a := g.pickVar(vA, "arr"); a != nil && a.alen > 0 {
			return a.name + "[" + g.index(a.alen) + "]"
		}
		return FnLen + "([1, 2])"
	case 10:
		if o := g.pickVar(vO, "obj"); o != nil {
			for _, k := range o.korder {
				if o.keys[k] == vN {
					return o.name + "." + k
				}
			}
		}
		return FnAbs + "(" + g.num(d-1) + ")"
	case 11:
		if f := g.pickFn(vF1, "f1"); f != nil {
			return f.name + "(" + g.num(d-1) + ")"
		}
		return FnRound + "(" + g.num(d-1) + ")"
	case 12:
		if f := g.pickFn(vF0, "f0"); f != nil {
			return f.name + "()"
		}
		if g.pure {
			return "7"
		}
		return FnClock + "()"
	case 13:
		switch g.s.Int("numbuiltin", 0, 7) {
		case 0:
			return FnAbs + "(" + g.num(d-1) + ")"
		case 1:
			return FnSqrt + "(" + g.num(d-1) + ")"
		case 2:
			return FnRound + "(" + g.num(d-1) + ")"
		case 3:
			return FnMax + "(" + g.num(d-1) + ", " + g.num(d-1) + ")"
		case 4:
			return FnMin + "(" + g.num(d-1) + ", " + g.num(d-1) + ", 3)"
		case 5:
			return FnPow + "(" + g.num(d-1) + ", 2)"
		case 6:
			return Pick(g.s, "trig", []string{FnSin, FnCos, FnTan}) + "(" + g.num(d-1) + ")"
		default:
			if a := g.pickVar(vA, "arr"); a != nil {
				return FnLen + "(" + a.name + ")"
			}
			return FnLen + "([])"
		}
	case 14:
		if a := g.pickVar(vA, "arr"); a != nil && a.alen > 0 {
			return Pick(g.s, "minmax", []string{FnMax, FnMin}) + "(" + a.name + ")"
		}
		return FnMax + "([1, 2, 3])"
	default:
		if o := g.pickVar(vO, "obj"); o != nil && g.inFunc == 0 {
			for _, k := range o.korder {
				if o.keys[k] == vF1 {
					return o.name + "." + k + "(" + g.num(d-1) + ")"
				}
			}
		}
		return FnRound + "(" + g.num(d-1) + ")"
	}
}

// index: a literal below n, or a loop counter known to stay below n
func (g *vGen) index(n int) string {
	if Chance(g.s, "ctridx", 1, 2) {
		var cands []*vVar
		for _, v := range g.visible(vN) {
			if v.ro && v.below > 0 && v.below <= n {
				cands = append(cands, v)
			}
		}
		if len(cands) > 0 {
			return cands[g.s.Int("ctr", 0, len(cands)-1)].name
		}
	}
	return fmt.Sprint(g.s.Int("idx", 0, n-1))
}

func (g *vGen) str(d int) string {
	if d <= 0 {
		if v := g.pickVar(vS, "strvar"); v != nil && Bool(g.s, "usevar") && !g.noStrRefs {
			return v.name
		}
		return Pick(g.s, "strlit", vStrLits)
	}
	switch g.s.Int("str", 0, 5) {
	case 0:
		return Pick(g.s, "strlit", vStrLits)
	case 1:
		if v := g.pickVar(vS, "strvar"); v != nil && !g.noStrRefs {
			return v.name
		}
		return Pick(g.s, "strlit", vStrLits)
	case 2:
		return "(" + g.str(d-1) + " + " + g.str(d-1) + ")"
	case 3:
		return "(" + g.str(d-1) + " + " + g.num(d-1) + ")"
	case 4:
		return "(" + g.num(d-1) + " + " + g.str(d-1) + ")"
	default:
		if o := g.pickVar(vO, "obj"); o != nil && !g.noStrRefs {
			for _, k := range o.korder {
				if o.keys[k] == vS {
					return o.name + "." + k
				}
			}
		}
		return "(" + g.str(d-1) + " + " + g.num(d-1) + ")"
	}
}

func (g *vGen) boolean(d int) string {
	if d <= 0 {
		if v := g.pickVar(vB, "boolvar"); v != nil && Bool(g.s, "usevar") {
			return v.name
		}
		return Pick(g.s, "boollit", []string{KwTrue, KwFalse})
	}
	switch g.s.Int("bool", 0, 7) {
	case 0:
		return Pick(g.s, "boollit", []string{KwTrue, KwFalse})
	case 1:
		if v := g.pickVar(vB, "boolvar"); v != nil {
			return v.name
		}
		return KwTrue
	case 2, 3:
		return "(" + g.num(d-1) + " " + Pick(g.s, "cmp", []string{"<", "<=", ">", ">=", "==", "!="}) + " " + g.num(d-1) + ")"
	case 4:
		return "(!" + g.boolean(d-1) + ")"
	case 5:
		return "(" + g.boolean(d-1) + " " + Pick(g.s, "logic", []string{KwAnd, KwOr, "&&", "||"}) + " " + g.boolean(d-1) + ")"
	case 6:
		return "(" + g.str(d-1) + " " + Pick(g.s, "eq", []string{"==", "!="}) + " " + g.str(d-1) + ")"
	default:
		// equality across kinds is defined (and false)
		return "(" + g.anyExpr(d-1) + " == " + g.anyExpr(d-1) + ")"
	}
}

// anyExpr: an expression of any kind (for printing, comparing with ==, passing around)
func (g *vGen) anyExpr(d int) string {
	switch g.s.Int("any", 0, 8) {
	case 0, 1:
		return g.num(d)
	case 2:
		return g.str(d)
	case 3:
		return g.boolean(d)
	case 4:
		if a := g.pickVar(vA, "arr"); a != nil {
			return a.name
		}
		return "[1, 2]"
	case 5:
		if o := g.pickVar(vO, "obj"); o != nil {
			return o.name
		}
		return "({k: 1})"
	case 6:
		if f := g.pickVar(vF1, "f1"); f != nil {
			return f.name
		}
		return FnAbs
	case 7:
		if f := g.pickVar(vAF, "af"); f != nil {
			return f.name
		}
		return "nil"
	default:
		return "nil"
	}
}

func (g *vGen) arrayLit() (string, int) {
	n := g.s.Int("alen", 0, 5)
	var el []string
	for i := 0; i < n; i++ {
		el = append(el, g.num(1))
	}
	return "[" + strings.Join(el, ", ") + "]", n
}

func (g *vGen) objectLit() (string, map[string]vType, []string) {
	n := g.s.Int("okeys", 0, 4)
	keys := map[string]vType{}
	var order, parts []string
	perm := append([]string(nil), vObjKeys...)
	for i := 0; i < n; i++ {
		j := i + g.s.Int("keypick", 0, len(perm)-1-i)
		perm[i], perm[j] = perm[j], perm[i]
		k := perm[i]
		var t vType
		var e string
		switch g.s.Int("pkind", 0, 4) {
		case 0, 1:
			t, e = vN, g.num(1)
		case 2:
			t, e = vS, g.str(1)
		case 3:
			if f := g.pickVar(vF1, "f1"); f != nil {
				t, e = vF1, f.name
			} else {
				t, e = vF1, FnAbs
			}
		default:
			t, e = vB, g.boolean(1)
		}
		keys[k] = t
		order = append(order, k)
		parts = append(parts, k+": "+e)
	}
	return "{" + strings.Join(parts, ", ") + "}", keys, order
}

// body emits between 1 and max statements
func (g *vGen) body(depth, max int) {
	n := g.s.Int("nstmt", 1, max)
	for i := 0; i < n; i++ {
		g.stmt(depth)
	}
}

func (g *vGen) stmt(depth int) {
	g.stmts++
	hi := 23
	if depth <= 0 || g.stmts > 60 {
		hi = 11
	}
	switch g.s.Int("stmt", 0, hi) {
	case 0, 1:
		g.emit("%s %s;", KwPrint, g.anyExpr(2))
	case 2:
		name := g.newName("n", vN)
		g.emit("%s %s = %s;", KwVar, name, g.num(2))
		g.declare(&vVar{name: name, t: vN})
	case 3:
		name := g.newName("s", vS)
		e := g.str(2)
		if !g.pure && g.inLoop == 0 && g.inFunc == 0 && Chance(g.s, "input", 1, 3) {
			g.inputs++
			e = FnInput + "()"
			if Bool(g.s, "prompt") {
				e = FnInput + "(\"p" + fmt.Sprint(g.inputs) + "> \")"
			}
		}
		g.emit("%s %s = %s;", KwVar, name, e)
		g.declare(&vVar{name: name, t: vS})
	case 4:
		name := g.newName("b", vB)
		g.emit("%s %s = %s;", KwVar, name, g.boolean(2))
		g.declare(&vVar{name: name, t: vB})
	case 5:
		name := g.newName("a", vA)
		lit, n := g.arrayLit()
		switch g.s.Int("arrsrc", 0, 3) {
		case 1:
			if a := g.pickVar(vA, "arr"); a != nil {
				lit, n = FnAppend+"("+a.name+", "+g.num(1)+")", a.alen+1
			}
		case 2:
			if a := g.pickVar(vA, "arr"); a != nil {
				lit, n = a.name, a.alen // an alias
			}
		}
		g.emit("%s %s = %s;", KwVar, name, lit)
		g.declare(&vVar{name: name, t: vA, alen: n})
	case 6:
		name := g.newName("o", vO)
		lit, keys, order := g.objectLit()
		g.emit("%s %s = %s;", KwVar, name, lit)
		g.declare(&vVar{name: name, t: vO, keys: keys, korder: order})
	case 7:
		// assignment to a variable of the same kind
		switch g.s.Int("asgkind", 0, 2) {
		case 0:
			var cands []*vVar
			for _, v := range g.visible(vN) {
				if !v.ro {
					cands = append(cands, v)
				}
			}
			if len(cands) > 0 {
				g.emit("%s = %s;", cands[g.s.Int("asgvar", 0, len(cands)-1)].name, g.num(2))
				return
			}
		case 1:
			if v := g.pickVar(vS, "strvar"); v != nil {
				g.noStrRefs = true
				rhs := g.str(2)
				g.noStrRefs = false
				g.emit("%s = %s;", v.name, rhs)
				return
			}
		default:
			if v := g.pickVar(vB, "boolvar"); v != nil {
				g.emit("%s = %s;", v.name, g.boolean(2))
				return
			}
		}
		g.emit("%s %s;", KwPrint, g.num(2))
	case 8:
		if a := g.pickVar(vA, "arr"); a != nil && a.alen > 0 {
			g.emit("%s[%s] = %s;", a.name, g.index(a.alen), g.num(2))
			return
		}
		g.emit("%s %s;", KwPrint, g.str(2))
	case 9:
		if o := g.pickVar(vO, "obj"); o != nil && len(o.korder) > 0 {
			k := o.korder[g.s.Int("okey", 0, len(o.korder)-1)]
			switch o.keys[k] {
			case vN:
				g.emit("%s.%s = %s;", o.name, k, g.num(2))
			case vS:
				g.noStrRefs = true
				rhs := g.str(2)
				g.noStrRefs = false
				g.emit("%s.%s = %s;", o.name, k, rhs)
			case vB:
				g.emit("%s.%s = %s;", o.name, k, g.boolean(2))
			default:
				g.emit("%s %s.%s;", KwPrint, o.name, k)
			}
			return
		}
		g.emit("%s %s;", KwPrint, g.boolean(2))
	case 10:
		// listing built-ins on objects, নিল declaration, varlist
		switch g.s.Int("misc", 0, 3) {
		case 0:
			if o := g.pickVar(vO, "obj"); o != nil {
				g.emit("%s %s(%s);", KwPrint, Pick(g.s, "listfn", []string{FnKeys, FnValues}), o.name)
				return
			}
			g.emit("%s %s({});", KwPrint, FnKeys)
		case 1:
			name := g.newName("u", vNil)
			g.emit("%s %s;", KwVar, name)
			g.declare(&vVar{name: name, t: vNil})
		case 2:
			a, b := g.fresh("n"), g.fresh("n")
			g.emit("%s %s = %s, %s = (%s + 1);", KwVar, a, g.num(1), b, a)
			g.declare(&vVar{name: a, t: vN})
			g.declare(&vVar{name: b, t: vN})
		default:
			g.emit("%s;", g.num(2))
		}
	case 11:
		if f := g.pickFn(vF1, "f1"); f != nil {
			g.emit("%s(%s);", f.name, g.num(1))
			return
		}
		g.emit("%s(%s);", FnAbs, g.num(1))
	case 12, 13:
		g.emit("%s (%s) {", KwIf, g.boolean(2))
		g.block(depth - 1)
		if Bool(g.s, "else") {
			g.emit("} %s {", KwElse)
			g.block(depth - 1)
		}
		g.emit("}")
	case 14:
		// counted while; the counter moves first, so that চালিয়ে_যাও cannot skip it
		w := g.fresh("w")
		k := g.s.Int("trips", 0, 4)
		g.emit("%s %s = 0;", KwVar, w)
		g.declare(&vVar{name: w, t: vN, ro: true})
		g.emit("%s (%s < %d) {", KwWhile, w, k)
		g.ind++
		g.emit("%s = %s + 1;", w, w)
		g.ind--
		g.inLoop++
		g.loopBlock(depth - 1)
		g.inLoop--
		g.emit("}")
	case 15, 16:
		f := g.fresh("i")
		k := g.s.Int("trips", 0, 4)
		g.emit("%s (%s %s = 0; %s < %d; %s = %s + 1) {", KwFor, KwVar, f, f, k, f, f)
		g.push()
		g.declare(&vVar{name: f, t: vN, ro: true, below: k})
		g.inLoop++
		g.loopBlock(depth - 1)
		g.inLoop--
		g.pop()
		g.emit("}")
	case 17:
		g.emit("{")
		g.block(depth - 1)
		g.emit("}")
	case 18, 19:
		g.funcDecl(depth - 1)
	case 20:
		g.closuresFromLoop()
	case 21:
		g.counterFactory()
	case 22:
		g.escapingFunction()
	default:
		if g.inFunc > 0 || g.inLoop > 0 {
			// (recursion only where it runs once: inside loops and function bodies its cost multiplies)
			g.emit("%s %s;", KwPrint, g.num(2))
			return
		}
		g.boundedRecursion()
	}
}

func (g *vGen) block(depth int) {
	g.push()
	g.ind++
	g.body(depth, 3)
	g.ind--
	g.pop()
}

// loopBlock: a loop body; may contain a guarded break / continue
func (g *vGen) loopBlock(depth int) {
	g.push()
	g.ind++
	n := g.s.Int("nstmt", 1, 3)
	for i := 0; i < n; i++ {
		if Chance(g.s, "brk", 1, 5) {
			g.emit("%s (%s) { %s; }", KwIf, g.boolean(1), Pick(g.s, "bc", []string{KwBreak, KwContinue}))
		}
		g.stmt(depth)
	}
	g.ind--
	g.pop()
}

// funcDecl declares f(x) or f() returning a number; the body may read and
// write what is visible at the declaration (a closure), has its own locals,
// may return early, also from inside a loop.
func (g *vGen) funcDecl(depth int) {
	arity := g.s.Int("arity", 0, 1)
	name := g.fresh("f")
	t := vF0
	params := ""
	if arity == 1 {
		t = vF1
		params = "x" + fmt.Sprint(g.n)
	}
	g.emit("%s %s(%s) {", KwFun, name, params)
	g.push()
	if arity == 1 {
		g.declare(&vVar{name: params, t: vN})
	}
	g.inFunc++
	savedLoop, savedCall := g.inLoop, g.madeCall
	g.inLoop, g.madeCall = 0, false
	g.ind++
	if depth > 0 {
		g.body(depth, 3)
	}
	if Chance(g.s, "earlyret", 1, 3) {
		g.emit("%s (%s) { %s %s; }", KwIf, g.boolean(1), KwReturn, g.num(1))
	}
	if Chance(g.s, "retinloop", 1, 4) {
		i := g.fresh("i")
		g.emit("%s (%s %s = 0; %s < 3; %s = %s + 1) { %s (%s == 1) { %s %s; } }", KwFor, KwVar, i, i, i, i, KwIf, i, KwReturn, g.num(1))
	}
	if Chance(g.s, "noreturn", 1, 8) {
		// falls off the end: the call yields nil, which may only be printed — declared as a procedure
		g.ind--
		g.inLoop = savedLoop
		g.inFunc--
		g.pop()
		g.emit("}")
		made := g.madeCall
		g.madeCall = savedCall || made
		if g.inFunc > 0 && made {
			return // (not called from inside another function body: call chains stay two deep)
		}
		if arity == 1 {
			g.emit("%s(%s);", name, g.num(1))
			g.emit("%s %s(%s);", KwPrint, name, g.num(1))
		} else {
			g.emit("%s();", name)
		}
		return
	}
	g.emit("%s %s;", KwReturn, g.num(2))
	g.ind--
	g.inLoop = savedLoop
	g.inFunc--
	g.pop()
	g.emit("}")
	g.declare(&vVar{name: name, t: t, calls: g.madeCall || g.inFunc > 0})
	g.madeCall = savedCall || g.madeCall
}

// closuresFromLoop: functions declared in a loop body, each closing over a
// local of its iteration, stored in an array and called after the loop ended.
func (g *vGen) closuresFromLoop() {
	fs, i, m, fn, j := g.fresh("fs"), g.fresh("i"), g.fresh("m"), g.fresh("g"), g.fresh("j")
	k := g.s.Int("trips", 1, 4)
	g.emit("%s %s = [];", KwVar, fs)
	loopKw := Bool(g.s, "whileloop")
	if loopKw {
		g.emit("%s %s = 0;", KwVar, i)
		g.emit("%s (%s < %d) {", KwWhile, i, k)
	} else {
		g.emit("%s (%s %s = 0; %s < %d; %s = %s + 1) {", KwFor, KwVar, i, i, k, i, i)
	}
	g.ind++
	g.emit("%s %s = %s * 2 + 1;", KwVar, m, i)
	x := "x" + fmt.Sprint(g.n)
	g.emit("%s %s(%s) { %s = %s + 1; %s %s * %s; }", KwFun, fn, x, m, m, KwReturn, x, m)
	g.emit("%s = %s(%s, %s);", fs, FnAppend, fs, fn)
	if loopKw {
		g.emit("%s = %s + 1;", i, i)
	}
	g.ind--
	g.emit("}")
	g.emit("%s (%s %s = 0; %s < %s(%s); %s = %s + 1) { %s %s[%s](%s + 1); %s %s[%s](2); }", KwFor, KwVar, j, j, FnLen, fs, j, j, KwPrint, fs, j, j, KwPrint, fs, j)
	g.declare(&vVar{name: fs, t: vAF})
}

// counterFactory: a function that returns an inner function sharing a local.
func (g *vGen) counterFactory() {
	mk, c, inc, k1, k2 := g.fresh("mk"), g.fresh("c"), g.fresh("inc"), g.fresh("k"), g.fresh("k")
	g.emit("%s %s() {", KwFun, mk)
	g.ind++
	g.emit("%s %s = %s;", KwVar, c, Pick(g.s, "numlit", vNumLits))
	g.emit("%s %s() { %s = %s + 1; %s %s; }", KwFun, inc, c, c, KwReturn, c)
	g.emit("%s %s;", KwReturn, inc)
	g.ind--
	g.emit("}")
	g.emit("%s %s = %s(), %s = %s();", KwVar, k1, mk, k2, mk)
	g.emit("%s %s(); %s %s(); %s %s(); %s %s()();", KwPrint, k1, KwPrint, k1, KwPrint, k2, KwPrint, mk)
	g.declare(&vVar{name: k1, t: vF0})
	g.declare(&vVar{name: k2, t: vF0})
}

// escapingFunction: a function declared in an inner block (or inside another
// function) over a local of that block, bound to an outer variable or stored
// in an object, and called after the block is gone.
func (g *vGen) escapingFunction() {
	h, loc, fn := g.fresh("h"), g.fresh("loc"), g.fresh("g")
	x := "x" + fmt.Sprint(g.n)
	switch g.s.Int("escape", 0, 2) {
	case 0:
		g.emit("%s %s = %s;", KwVar, h, FnAbs)
		g.emit("{")
		g.ind++
		g.emit("%s %s = %s;", KwVar, loc, g.num(1))
		g.emit("%s %s(%s) { %s %s + %s; }", KwFun, fn, x, KwReturn, loc, x)
		g.emit("%s = %s;", h, fn)
		g.ind--
		g.emit("}")
		g.emit("%s %s(%s);", KwPrint, h, g.num(1))
		g.declare(&vVar{name: h, t: vF1})
	case 1:
		ob := g.fresh("o")
		g.emit("%s %s = {fn: %s, n: 1};", KwVar, ob, FnAbs)
		g.emit("%s (%s) {", KwIf, KwTrue)
		g.ind++
		g.emit("%s %s = %s;", KwVar, loc, g.num(1))
		g.emit("%s %s(%s) { %s = %s + %s; %s %s; }", KwFun, fn, x, loc, loc, x, KwReturn, loc)
		g.emit("%s.fn = %s;", ob, fn)
		g.ind--
		g.emit("}")
		g.emit("%s %s.fn(%s); %s %s.fn(1);", KwPrint, ob, g.num(1), KwPrint, ob)
		g.declare(&vVar{name: ob, t: vO, keys: map[string]vType{"fn": vF1, "n": vN}, korder: []string{"fn", "n"}})
	default:
		outer := g.fresh("mk")
		g.emit("%s %s(%s) {", KwFun, outer, loc)
		g.ind++
		g.emit("%s %s(%s) { %s %s * %s; }", KwFun, fn, x, KwReturn, loc, x)
		g.emit("%s %s;", KwReturn, fn)
		g.ind--
		g.emit("}")
		g.emit("%s %s = %s(%s);", KwVar, h, outer, g.num(1))
		g.emit("%s %s(3); %s %s(%s)(4);", KwPrint, h, KwPrint, outer, g.num(1))
		g.declare(&vVar{name: h, t: vF1})
	}
}

func (g *vGen) boundedRecursion() {
	r := g.fresh("r")
	x := "x" + fmt.Sprint(g.n)
	switch g.s.Int("rec", 0, 2) {
	case 0:
		g.emit("%s %s(%s) { %s (%s <= 0) { %s 0; } %s %s(%s - 1) + %s; }", KwFun, r, x, KwIf, x, KwReturn, KwReturn, r, x, x)
		g.emit("%s %s(%d);", KwPrint, r, g.s.Int("depth", 0, 40))
	case 1:
		g.emit("%s %s(%s) { %s (%s < 2) { %s %s; } %s %s(%s - 1) + %s(%s - 2); }", KwFun, r, x, KwIf, x, KwReturn, x, KwReturn, r, x, r, x)
		g.emit("%s %s(%d);", KwPrint, r, g.s.Int("fib", 0, 12))
	default:
		// accumulates an array on the way down
		g.emit("%s %s(%s, acc) { %s (%s <= 0) { %s %s(acc); } %s %s(%s - 1, %s(acc, %s)); }", KwFun, r, x, KwIf, x, KwReturn, FnLen, KwReturn, r, x, FnAppend, x)
		g.emit("%s %s(%d, []);", KwPrint, r, g.s.Int("depth", 0, 30))
	}
}

// validProgram returns the program text and the number of stdin lines it reads.
func validProgram(s Src) (string, int) { return validProgramOpt(s, false) }

// validProgramOpt: with pure set, the program neither reads input nor the clock.
func validProgramOpt(s Src, pure bool) (string, int) {
	g := &vGen{s: s, pure: pure}
	g.push()
	n := s.Int("ntop", 3, 14)
	for i := 0; i < n; i++ {
		g.stmt(3)
	}
	g.emit("%s \"@END\";", KwPrint)
	return strings.Join(g.lines, "\n") + "\n", g.inputs
}
