package main

import (
	"fmt"
	"strings"

	sim "github.com/ah-naf/borno/verifsimrt"
)

// Schedule generators: everything the environment may decide, drawn from Src.

const scriptName = "prog.bn"

func scriptCfg(program string, stdin string) sim.Config {
	return sim.Config{
		Args:       []string{"borno", scriptName},
		Files:      map[string]sim.File{scriptName: {Data: []byte(program)}},
		Stdin:      []byte(stdin),
		StdinErrAt: -1,
		Budget:     sim.DefaultBudget + 400*len(program),
	}
}

func replCfg(stdin string) sim.Config {
	return sim.Config{Args: []string{"borno"}, Stdin: []byte(stdin), StdinErrAt: -1, Budget: sim.DefaultBudget + 400*len(stdin)}
}

// Delivery names the fixed delivery modes.
func withDelivery(c sim.Config, mode string) sim.Config {
	c.Chunks = nil
	switch mode {
	case "all":
		c.ChunkDefault = -1
	case "line":
		c.ChunkDefault = 0
	case "byte":
		c.ChunkDefault = 1
	case "3byte":
		c.ChunkDefault = 3
	}
	return c
}

// drawDelivery draws a random delivery script for stdin.
func drawDelivery(s Src, c sim.Config) (sim.Config, string) {
	c.Chunks = nil
	switch s.Int("delivery", 0, 5) {
	case 0:
		c.ChunkDefault = 0
		return c, "line"
	case 1:
		c.ChunkDefault = -1
		return c, "all"
	case 2:
		c.ChunkDefault = 1
		return c, "byte"
	case 3:
		c.ChunkDefault = s.Int("chunkdef", 2, 7)
		return c, fmt.Sprintf("%dbyte", c.ChunkDefault)
	default:
		n := s.Int("nchunks", 1, 12)
		for i := 0; i < n; i++ {
			k := s.Int("chunk", 0, 12)
			if k == 12 {
				k = s.Int("bigchunk", 13, 80)
			}
			c.Chunks = append(c.Chunks, k)
		}
		c.ChunkDefault = Pick(s, "chunkdefault", []int{0, -1, 1, 2, 5})
		return c, "cuts"
	}
}

// drawOrders draws n map-order decisions.
func drawOrders(s Src, n int) []int {
	out := make([]int, n)
	for i := range out {
		switch s.Int("orderkind", 0, 3) {
		case 0:
			out[i] = 0
		case 1:
			out[i] = -1
		default:
			out[i] = s.Int("perm", 1, 719)
		}
	}
	// trim trailing identities so that shorter lists mean the same thing
	for len(out) > 0 && out[len(out)-1] == 0 {
		out = out[:len(out)-1]
	}
	return out
}

var clockStarts = []int64{
	// kept inside 1700..2250: an implementation that goes through int64 nanoseconds
	// (time.Time.UnixNano) is legitimate and only defined for 1678..2262
	0, 1000, 999, 1_000_000, 1_727_000_000_000, 1_727_000_000_123, 8_835_868_800_000, // year 2250
	-8_520_336_000_000, // year 1700
	-1, -999, -1001, 86_399_999, 4_102_444_800_000,
}

func drawClock(s Src, c sim.Config, nsteps int) sim.Config {
	c.ClockStartMs = Pick(s, "clockstart", clockStarts)
	if Bool(s, "clockoffset") {
		c.ClockStartMs += int64(s.Int("clockoff", -5000, 5000))
	}
	c.ClockStepsMs = nil
	for i := 0; i < nsteps; i++ {
		switch s.Int("stepkind", 0, 6) {
		case 0:
			c.ClockStepsMs = append(c.ClockStepsMs, 0)
		case 1:
			c.ClockStepsMs = append(c.ClockStepsMs, 1)
		case 2:
			c.ClockStepsMs = append(c.ClockStepsMs, 999)
		case 3:
			c.ClockStepsMs = append(c.ClockStepsMs, 1000)
		case 4:
			c.ClockStepsMs = append(c.ClockStepsMs, int64(s.Int("hours", 1, 48))*3600_000)
		case 5:
			c.ClockStepsMs = append(c.ClockStepsMs, -int64(s.Int("back", 1, 100000)))
		default:
			c.ClockStepsMs = append(c.ClockStepsMs, int64(s.Int("step", 2, 5000)))
		}
	}
	if Bool(s, "clockns") {
		c.ClockNs = int64(s.Int("ns", 0, 999999))
	}
	if Chance(s, "ticktime", 1, 3) {
		c.ClockTickUs = Pick(s, "tickus", []int64{1, 50, 1000, 20000})
	}
	c.TZOffsetMin = Pick(s, "tz", []int{0, 0, 360, -300, 330, 765, -720, 345})
	return c
}

func drawGC(s Src, c sim.Config) sim.Config {
	c.GCTicks = nil
	n := s.Int("ngc", 0, 3)
	t := 0
	for i := 0; i < n; i++ {
		t += s.Int("gctick", 1, 400)
		c.GCTicks = append(c.GCTicks, t)
	}
	if Bool(s, "ballast") {
		c.Ballast = s.Int("ballastkb", 1, 512) * 1024
	} else {
		c.Ballast = 0
	}
	return c
}

func lines(ls ...string) string { return strings.Join(ls, "\n") + "\n" }

func bstr(s string) string { return "\"" + s + "\"" }

// drawTTY: which standard streams look like terminals (0 = none, the common case in tests).
func drawTTY(s Src) int {
	return Pick(s, "tty", []int{0, 0, 0, 7, 4, 6, 1})
}

// drawSched draws the part of a schedule that only matters for a tree that starts goroutines
// or timers (verifsimrt/tasks.go): the seed and slice of the task scheduler and, with timeToo,
// how simulated time passes while the program computes and while it waits for input.
func drawSched(s Src, c sim.Config, timeToo bool) sim.Config {
	c.SchedSeed = int64(s.Int("schedseed", 0, 1<<30))
	c.SchedQuantum = Pick(s, "quantum", []int{1, 3, 20, 200, 2000})
	if timeToo {
		if c.ClockTickUs == 0 {
			c.ClockTickUs = Pick(s, "tickus", []int64{0, 0, 10, 1000, 20000})
		}
		c.ReadDelayMs = Pick(s, "readdelay", []int64{0, 0, 0, 20, 250, 3000, 7000})
	}
	return c
}

// applySched gives every run of a case the same drawn concurrency schedule.
func applySched(s Src, cs *Case, timeToo bool) *Case {
	d := drawSched(s, sim.Config{}, timeToo)
	for i := range cs.Runs {
		c := cs.Runs[i].Cfg
		c.SchedSeed, c.SchedQuantum, c.ReadDelayMs = d.SchedSeed, d.SchedQuantum, d.ReadDelayMs
		if c.ClockTickUs == 0 {
			c.ClockTickUs = d.ClockTickUs
		}
		cs.Runs[i].Cfg = c
	}
	return cs
}
