package main

import (
	"fmt"
	"math"
	"regexp"
	"strconv"
	"strings"
)

// C17 (clock clause only) — ক্লক() returns the current Unix time in seconds.
// The simulator owns the wall clock: start anywhere in 1700..2250 (the range int64 nanoseconds can hold), steps of
// 0 ms .. days, backward jumps, sub-millisecond fractions.

func init() {
	register(&Property{
		ID:          "C17",
		Level:       "exploration",
		Systematic:  c17Systematic,
		Random:      c17Random,
		RandomCount: func(tier string) int { return map[string]int{"quick": 600, "thorough": 300000}[tier] },
		Eval:        c17Eval,
		Rule: "CLOCK CLAUSE ONLY (the math built-ins are pure functions and not covered). programs = 1..6 ক্লক() calls whose values are printed at once, stored and printed later, or taken inside a loop / function; schedule = simulated wall clock: start in {0, +-1 s, 1e6, today, year 2250, year 1700 (negative), ...} +- offset, per-read step in {0, 1 ms, 999 ms, 1 s, hours, backward jump, random}, sub-ms fraction; some schedules also let simulated time pass with every executed step; oracle = the value of each ক্লক() call is within 1 s of the simulated wall clock at the moment of the call or of a reading taken during the call (how often an implementation reads the clock is its own business), a later instant never reads as an earlier time, ক্লক(1) is a runtime error. " +
			"distinct_nontrivial counts distinct (program shape, clock start, step vector) triples with at least one non-default step.",
		DistinctSet: "c17_clock_scripts",
		Assumptions: []string{
			"'in seconds' is read as: within one second of the true instant (whole-second, millisecond and nanosecond resolutions all pass)",
			"only the clock clause of C17 is decided; abs/sqrt/pow/sin/cos/tan/round/min/max and argument validation are NOT covered by this check",
		},
		Components: map[string]string{
			"interpreter and ক্লক built-in": "real code (instrumented copy; time.Now routed to the simulated clock)",
			"wall clock":                    "stub (verifsimrt.Now, scripted by the schedule)",
		},
		ReachTargets: []string{"fault.clock_backward_span", "reach.clock_negative_epoch", "reach.clock_zero_step", "reach.clock_far_future"},
	})
}

type c17Item struct {
	kind string // now | store | show | loop | func
	call int
}

func c17Program(s Src) (prog string, order []int, ncalls int, shape string) {
	var ls []string
	ls = append(ls, fmt.Sprintf("%s now() { %s %s(); }", KwFun, KwReturn, FnClock))
	n := s.Int("nitems", 1, 6)
	var stored []int
	var sh []string
	for i := 0; i < n; i++ {
		switch s.Int("item", 0, 6) {
		case 6:
			// time passes while the program computes (when the schedule lets steps take time)
			ls = append(ls, fmt.Sprintf("%s (%s b%d = 0; b%d < %d; b%d = b%d + 1) { }", KwFor, KwVar, i, i, s.Int("busy", 1, 300), i, i))
			sh = append(sh, "work")
		case 0, 1:
			ls = append(ls, fmt.Sprintf("%s %s();", KwPrint, FnClock))
			order = append(order, ncalls)
			ncalls++
			sh = append(sh, "now")
		case 2:
			ls = append(ls, fmt.Sprintf("%s t%d = %s();", KwVar, ncalls, FnClock))
			stored = append(stored, ncalls)
			ncalls++
			sh = append(sh, "store")
		case 3:
			if len(stored) == 0 {
				continue
			}
			j := stored[s.Int("which", 0, len(stored)-1)]
			ls = append(ls, fmt.Sprintf("%s t%d;", KwPrint, j))
			order = append(order, j)
			sh = append(sh, "show")
		case 4:
			k := s.Int("trips", 1, 3)
			ls = append(ls, fmt.Sprintf("%s (%s i%d = 0; i%d < %d; i%d = i%d + 1) { %s %s(); }", KwFor, KwVar, i, i, k, i, i, KwPrint, FnClock))
			for j := 0; j < k; j++ {
				order = append(order, ncalls)
				ncalls++
			}
			sh = append(sh, fmt.Sprintf("loop%d", k))
		default:
			ls = append(ls, fmt.Sprintf("%s now();", KwPrint))
			order = append(order, ncalls)
			ncalls++
			sh = append(sh, "func")
		}
	}
	if ncalls == 0 {
		ls = append(ls, fmt.Sprintf("%s %s();", KwPrint, FnClock))
		order = append(order, 0)
		ncalls = 1
		sh = append(sh, "now")
	}
	return strings.Join(ls, "\n") + "\n", order, ncalls, strings.Join(sh, ",")
}

func c17Case(s Src) *Case {
	prog, order, ncalls, shape := c17Program(s)
	cs := &Case{Prop: "C17", Kind: "clock", Sig: shape, Program: prog}
	c := drawClock(s, scriptCfg(prog, ""), ncalls)
	cs.Runs = []Run{{Role: "clock", Cfg: c}}
	cs.Aux = &Aux{C17: &C17Expect{PrintOrder: order, Calls: ncalls}}
	return cs
}

type C17Expect struct {
	PrintOrder []int `json:"print_order"` // k-th printed number is the value of call PrintOrder[k]
	Calls      int   `json:"calls"`
	Arity      bool  `json:"arity,omitempty"`
}

func c17Random(s Src, tier string) *Case { return c17Case(s) }

func c17Systematic(tier string) []*Case {
	var out []*Case
	// every start x every single step kind, two immediate reads
	prog := lines(KwPrint+" "+FnClock+"();", KwPrint+" "+FnClock+"();")
	steps := []int64{0, 1, 999, 1000, 3600_000, 86_400_000 * 400, -5000, -1}
	for _, st := range clockStarts {
		for _, sp := range steps {
			c := scriptCfg(prog, "")
			c.ClockStartMs = st
			c.ClockStepsMs = []int64{sp, 1}
			c.TZOffsetMin = []int{0, 360, -300, 765}[len(out)%4]
			cs := &Case{Prop: "C17", Kind: "clock", Sig: "now,now", Program: prog, Runs: []Run{{Role: "clock", Cfg: c}}}
			cs.Aux = &Aux{C17: &C17Expect{PrintOrder: []int{0, 1}, Calls: 2}}
			out = append(out, cs)
		}
	}
	// reads around a second boundary, half a millisecond off the grid: whatever the
	// resolution, a later instant may not read as an earlier time
	for _, base := range []int64{1_727_000_000_000, 0, -5000, 8_835_868_800_000} {
		for off := int64(-3); off <= 0; off++ {
			prog5 := lines(KwPrint+" "+FnClock+"();", KwPrint+" "+FnClock+"();", KwPrint+" "+FnClock+"();", KwPrint+" "+FnClock+"();", KwPrint+" "+FnClock+"();")
			c := scriptCfg(prog5, "")
			c.ClockStartMs = base + off
			c.ClockStepsMs = []int64{1, 1, 1, 1, 1}
			c.ClockNs = 500000
			cs := &Case{Prop: "C17", Kind: "clock", Sig: "boundary", Program: prog5, Runs: []Run{{Role: "clock", Cfg: c}}}
			cs.Aux = &Aux{C17: &C17Expect{PrintOrder: []int{0, 1, 2, 3, 4}, Calls: 5}}
			out = append(out, cs)
		}
	}
	// ক্লক() at the bottom of a deep recursion: wherever plain recursion of that depth is
	// allowed (the limit itself is not fixed by any property), reading the clock there is too
	for _, depth := range []int{2000, 19999, 49999} {
		plain := lines(fmt.Sprintf("%s down(n) { %s (n > 0) { %s down(n - 1); } %s 7; }", KwFun, KwIf, KwReturn, KwReturn), fmt.Sprintf("%s down(%d);", KwPrint, depth))
		p := lines(fmt.Sprintf("%s down(n) { %s (n > 0) { %s down(n - 1); } %s %s(); }", KwFun, KwIf, KwReturn, KwReturn, FnClock), fmt.Sprintf("%s down(%d);", KwPrint, depth))
		c0 := scriptCfg(plain, "")
		c0.Budget = 60000000
		c := scriptCfg(p, "")
		c.Budget = 60000000
		c.ClockStartMs = 1_727_000_000_000
		cs := &Case{Prop: "C17", Kind: "clock-deep", Sig: fmt.Sprintf("deep:%d", depth), Program: p, Runs: []Run{{Role: "fresh-process:clock", Cfg: c}, {Role: "fresh-process:plain", Cfg: c0}}}
		cs.Aux = &Aux{C17: &C17Expect{PrintOrder: []int{0}, Calls: 1}}
		out = append(out, cs)
	}
	// in interactive mode every line sees the real ক্লক, whatever an earlier line did to the name
	{
		stdin := lines(FnClock+" = 0;", KwVar+" keep = "+FnClock+";", KwPrint+" \"#A#\";", KwPrint+" "+FnClock+"();", KwPrint+" \"#B#\";")
		c := replCfg(stdin)
		c.ClockStartMs = 1_727_000_000_000
		cs := &Case{Prop: "C17", Kind: "clock-repl", Sig: "repl:rebound-earlier", Program: stdin, Runs: []Run{{Role: "clock", Cfg: c}}}
		cs.Aux = &Aux{C17: &C17Expect{PrintOrder: []int{0}, Calls: 1}}
		out = append(out, cs)
	}
	// misuse through callees that are not plain names
	for _, call := range []string{"(" + FnClock + ")(1)", "[" + FnClock + "][0](1)", "({f: " + FnClock + "}).f(nil)", "h(" + FnClock + ")", FnClock + "(" + FnClock + "())"} {
		p := lines(KwFun+" h(f) { "+KwReturn+" f(1, 2); }", KwPrint+" \"a\";", KwPrint+" "+call+";", KwPrint+" \"b\";")
		cs := &Case{Prop: "C17", Kind: "arity", Sig: "arity-indirect:" + call, Program: p, Runs: []Run{{Role: "clock", Cfg: scriptCfg(p, "")}}}
		cs.Aux = &Aux{C17: &C17Expect{Arity: true}}
		out = append(out, cs)
	}
	// misuse: ক্লক(1) is a runtime error
	for _, args := range []string{"1", "1, 2", "nil"} {
		p := lines(KwPrint+" \"a\";", KwPrint+" "+FnClock+"("+args+");", KwPrint+" \"b\";")
		cs := &Case{Prop: "C17", Kind: "arity", Sig: "arity:" + args, Program: p, Runs: []Run{{Role: "clock", Cfg: scriptCfg(p, "")}}}
		cs.Aux = &Aux{C17: &C17Expect{Arity: true}}
		out = append(out, cs)
	}
	return out
}

func c17Eval(cs *Case, ctx *EvalCtx) []Violation {
	obs := ctx.RunAll(cs)
	o := obs[0]
	ex := cs.Aux.C17
	var vs []Violation
	add := func(class, msg string) {
		vs = append(vs, Violation{Prop: "C17", Class: "C17/" + class, Sig: cs.Sig, Msg: msg, Run: 0})
	}
	if o.Res.Panic != "" {
		add("host-panic", o.Res.Panic)
		return vs
	}
	if o.Res.Budget {
		add("no-termination", "step budget exceeded")
		return vs
	}
	if cs.Kind == "clock-deep" && (obs[1].ExitStatus() != 0 || obs[1].Stdout != "7\n") {
		// plain recursion of this depth is not allowed on this tree: nothing to demand
		if ctx.Stats != nil {
			ctx.Stats.Count("info.recursion_depth_not_allowed_"+cs.Sig, 1)
		}
		return vs
	}
	if ex.Arity {
		if o.FirstErr < 0 || o.ExitStatus() != 70 || o.Stdout != "a\n" {
			add("clock-misuse-accepted", fmt.Sprintf("ক্লক with arguments must be a runtime error: exit=%d stdout=%q stderr=%q", o.ExitStatus(), o.Stdout, o.Stderr))
		}
		return vs
	}
	if cs.Kind != "clock-repl" && (o.FirstErr >= 0 || o.ExitStatus() != 0) {
		add("unexpected-diagnostic", fmt.Sprintf("exit=%d stderr=%q", o.ExitStatus(), o.Stderr))
		return vs
	}
	// For every ক্লক() call: the simulated wall clock at the moment of the call and every
	// reading of it taken while the call was in progress. How many readings an
	// implementation takes, and when (at start-up, per call, twice per call), is its own
	// business; the value it returns must be the current time.
	type callRef struct {
		at    int64   // wall clock (ms) when the built-in was entered
		reads []int64 // wall-clock readings taken during the call
	}
	var refs []callRef
	open := false
	for _, e := range o.Res.Events {
		switch e.Kind {
		case "BUILTIN":
			refs = append(refs, callRef{at: e.N})
			open = true
		case "NOW":
			if open {
				refs[len(refs)-1].reads = append(refs[len(refs)-1].reads, e.N)
			}
		case "OUT", "ERR", "EXIT", "READ":
			open = false
		}
	}
	if len(refs) != ex.Calls {
		// no call events (the built-ins are not dispatched through a Call method any more):
		// fall back to "the k-th reading belongs to the k-th call" if that is at least consistent
		var all []int64
		for _, e := range o.Res.Events {
			if e.Kind == "NOW" {
				all = append(all, e.N)
			}
		}
		if len(all) != ex.Calls {
			fatal2("C17: cannot attribute %d clock readings / %d built-in calls to the %d ক্লক() calls of the program", len(all), len(refs), ex.Calls)
		}
		refs = nil
		for _, n := range all {
			refs = append(refs, callRef{at: n, reads: []int64{n}})
		}
	}
	// nows[k]: the instant call k is held to (its last reading, or the moment of the call if it took none)
	nows := make([]int64, len(refs))
	for k, r := range refs {
		nows[k] = r.at
		if len(r.reads) > 0 {
			nows[k] = r.reads[len(r.reads)-1]
		}
	}
	stdout := o.Stdout
	if cs.Kind == "clock-repl" {
		// the value sits between the two marker lines; whatever the prompt looks like,
		// the number is the trailing numeral of the line that follows marker A
		a := strings.Index(stdout, "#A#\n")
		b := strings.Index(stdout, "#B#\n")
		val := ""
		if a >= 0 && b > a {
			seg := stdout[a+4 : b]
			if nl := strings.Index(seg, "\n"); nl >= 0 {
				val = regexp.MustCompile(`[-+]?[0-9]*\.?[0-9]+(?:[eE][-+]?[0-9]+)?$`).FindString(seg[:nl])
			}
		}
		stdout = ""
		if val != "" {
			stdout = val + "\n"
		}
	}
	ls := strings.Split(strings.TrimSuffix(stdout, "\n"), "\n")
	if stdout == "" {
		ls = nil
	}
	if len(ls) != len(ex.PrintOrder) {
		add("output-shape", fmt.Sprintf("expected %d printed values, got %q", len(ex.PrintOrder), o.Stdout))
		return vs
	}
	for k, l := range ls {
		v, err := strconv.ParseFloat(l, 64)
		if err != nil {
			add("not-a-number", fmt.Sprintf("printed value %q is not a number", l))
			return vs
		}
		r := refs[ex.PrintOrder[k]]
		okv := !math.IsNaN(v) && math.Abs(v-float64(r.at)/1000.0) < 1.0
		for _, n := range r.reads {
			if !math.IsNaN(v) && math.Abs(v-float64(n)/1000.0) < 1.0 {
				okv = true
			}
		}
		if !okv {
			add("wrong-time", fmt.Sprintf("print %d (call %d) shows %v but the wall clock stood at %v s when ক্লক was called (readings taken during the call: %v ms; start %d ms, steps %v, %d us per step)", k, ex.PrintOrder[k], v, float64(r.at)/1000.0, r.reads, cs.Runs[0].Cfg.ClockStartMs, cs.Runs[0].Cfg.ClockStepsMs, cs.Runs[0].Cfg.ClockTickUs))
			return vs
		}
	}
	// a later instant never reads as an earlier time, the same instant reads the same
	vals := make([]float64, len(ls))
	for k, l := range ls {
		vals[k], _ = strconv.ParseFloat(l, 64)
	}
	for a := 0; a < len(vals); a++ {
		for b := 0; b < len(vals); b++ {
			ta, tb := nows[ex.PrintOrder[a]], nows[ex.PrintOrder[b]]
			if ta < tb && vals[a] > vals[b] {
				add("clock-not-monotonic", fmt.Sprintf("the wall clock went from %d ms to %d ms but ক্লক() went from %v to %v", ta, tb, vals[a], vals[b]))
				return vs
			}
			if ta == tb && vals[a] != vals[b] {
				add("clock-not-monotonic", fmt.Sprintf("two reads at the same instant (%d ms) gave %v and %v", ta, vals[a], vals[b]))
				return vs
			}
		}
	}
	if ctx.Stats != nil {
		st := ctx.Stats
		c := cs.Runs[0].Cfg
		nondef := false
		for _, s := range c.ClockStepsMs {
			if s != 1 {
				nondef = true
			}
			if s == 0 {
				st.Count("reach.clock_zero_step", 1)
			}
		}
		for _, t := range nows {
			if t < 0 {
				st.Count("reach.clock_negative_epoch", 1)
				break
			}
		}
		for _, t := range nows {
			if t > 4_000_000_000_000 {
				st.Count("reach.clock_far_future", 1)
				break
			}
		}
		if nondef {
			st.Seen("c17_clock_scripts", fmt.Sprintf("%s|%d|%v|%d", cs.Sig, c.ClockStartMs, c.ClockStepsMs, c.ClockNs))
		}
	}
	return vs
}
