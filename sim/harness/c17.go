package main

import (
	"fmt"
	"math"
	"regexp"
	"strconv"
	"strings"
)

// C17 (clock clause only) — ক্লক() returns the current Unix time in seconds.
// The simulator owns the wall clock: start anywhere in 1700..2250 (the range int64 nanoseconds can hold), steps of
// 0 ms .. days, backward jumps, sub-millisecond fractions.

func init() {
	register(&Property{
		ID:          "C17",
		Level:       "exploration",
		Systematic:  c17Systematic,
		Random:      c17Random,
		RandomCount: func(tier string) int { return map[string]int{"quick": 600, "thorough": 300000}[tier] },
		Eval:        c17Eval,
		Rule: "CLOCK CLAUSE ONLY (the math built-ins are pure functions and not covered). programs = 1..6 ক্লক() calls whose values are printed at once, stored and printed later, or taken inside a loop / function; schedule = simulated wall clock: start in {0, +-1 s, 1e6, today, year 2250, year 1700 (negative), ...} +- offset, per-read step in {0, 1 ms, 999 ms, 1 s, hours, backward jump, random}, sub-ms fraction; some schedules also let simulated time pass with every executed step; oracle = the value of each ক্লক() call is within 1 s of the simulated wall clock at the marker printed right before the call or of a reading taken between that marker and the next (how often an implementation reads the clock is its own business), a later instant never reads as an earlier time, ক্লক(1) is a runtime error. " +
			"distinct_nontrivial counts distinct (program shape, clock start, step vector) triples with at least one non-default step.",
		DistinctSet: "c17_clock_scripts",
		Assumptions: []string{
			"'in seconds' is read as: within one second of the true instant (whole-second, millisecond and nanosecond resolutions all pass)",
			"only the clock clause of C17 is decided; abs/sqrt/pow/sin/cos/tan/round/min/max and argument validation are NOT covered by this check",
		},
		Components: map[string]string{
			"interpreter and ক্লক built-in": "real code (instrumented copy; time.Now routed to the simulated clock)",
			"wall clock":                    "stub (verifsimrt.Now, scripted by the schedule)",
		},
		ReachTargets: []string{"fault.clock_backward_span", "reach.clock_negative_epoch", "reach.clock_zero_step", "reach.clock_far_future"},
	})
}

// c17Mark is printed right before every ক্লক() call: the simulated wall clock at that
// output event is "the moment of the call", whatever the implementation does inside.
var c17Mark = KwPrint + " \"@c\"; " + FnInput + "();"

type c17Item struct {
	kind string // now | store | show | loop | func
	call int
}

func c17Program(s Src) (prog string, order []int, ncalls int, shape string) {
	var ls []string
	ls = append(ls, fmt.Sprintf("%s now() { %s %s(); }", KwFun, KwReturn, FnClock))
	n := s.Int("nitems", 1, 6)
	var stored []int
	var sh []string
	for i := 0; i < n; i++ {
		switch s.Int("item", 0, 6) {
		case 6:
			// time passes while the program computes (when the schedule lets steps take time)
			ls = append(ls, fmt.Sprintf("%s (%s b%d = 0; b%d < %d; b%d = b%d + 1) { }", KwFor, KwVar, i, i, s.Int("busy", 1, 300), i, i))
			sh = append(sh, "work")
		case 0, 1:
			ls = append(ls, c17Mark, fmt.Sprintf("%s %s();", KwPrint, FnClock))
			order = append(order, ncalls)
			ncalls++
			sh = append(sh, "now")
		case 2:
			ls = append(ls, c17Mark, fmt.Sprintf("%s t%d = %s();", KwVar, ncalls, FnClock))
			stored = append(stored, ncalls)
			ncalls++
			sh = append(sh, "store")
		case 3:
			if len(stored) == 0 {
				continue
			}
			j := stored[s.Int("which", 0, len(stored)-1)]
			ls = append(ls, fmt.Sprintf("%s t%d;", KwPrint, j))
			order = append(order, j)
			sh = append(sh, "show")
		case 4:
			k := s.Int("trips", 1, 3)
			ls = append(ls, fmt.Sprintf("%s (%s i%d = 0; i%d < %d; i%d = i%d + 1) { %s %s %s(); }", KwFor, KwVar, i, i, k, i, i, c17Mark, KwPrint, FnClock))
			for j := 0; j < k; j++ {
				order = append(order, ncalls)
				ncalls++
			}
			sh = append(sh, fmt.Sprintf("loop%d", k))
		default:
			ls = append(ls, c17Mark, fmt.Sprintf("%s now();", KwPrint))
			order = append(order, ncalls)
			ncalls++
			sh = append(sh, "func")
		}
	}
	if ncalls == 0 {
		ls = append(ls, c17Mark, fmt.Sprintf("%s %s();", KwPrint, FnClock))
		order = append(order, 0)
		ncalls = 1
		sh = append(sh, "now")
	}
	return strings.Join(ls, "\n") + "\n", order, ncalls, strings.Join(sh, ",")
}

func c17Case(s Src) *Case {
	prog, order, ncalls, shape := c17Program(s)
	cs := &Case{Prop: "C17", Kind: "clock", Sig: shape, Program: prog}
	c := drawClock(s, scriptCfg(prog, strings.Repeat("m\n", ncalls+2)), ncalls)
	cs.Runs = []Run{{Role: "clock", Cfg: c}}
	cs.Aux = &Aux{C17: &C17Expect{PrintOrder: order, Calls: ncalls}}
	return cs
}

type C17Expect struct {
	PrintOrder []int `json:"print_order"` // k-th printed number is the value of call PrintOrder[k]
	Calls      int   `json:"calls"`
	Arity      bool  `json:"arity,omitempty"`
}

func c17Random(s Src, tier string) *Case { return applySched(s, c17Case(s), false) }

func c17Systematic(tier string) []*Case {
	var out []*Case
	// every start x every single step kind, two immediate reads
	prog := lines(c17Mark, KwPrint+" "+FnClock+"();", c17Mark, KwPrint+" "+FnClock+"();")
	steps := []int64{0, 1, 999, 1000, 3600_000, 86_400_000 * 400, -5000, -1}
	for _, st := range clockStarts {
		for _, sp := range steps {
			c := scriptCfg(prog, "m\nm\nm\n")
			c.ClockStartMs = st
			c.ClockStepsMs = []int64{sp, 1}
			c.TZOffsetMin = []int{0, 360, -300, 765}[len(out)%4]
			cs := &Case{Prop: "C17", Kind: "clock", Sig: "now,now", Program: prog, Runs: []Run{{Role: "clock", Cfg: c}}}
			cs.Aux = &Aux{C17: &C17Expect{PrintOrder: []int{0, 1}, Calls: 2}}
			out = append(out, cs)
		}
	}
	// reads around a second boundary, half a millisecond off the grid: whatever the
	// resolution, a later instant may not read as an earlier time
	for _, base := range []int64{1_727_000_000_000, 0, -5000, 8_835_868_800_000} {
		for off := int64(-3); off <= 0; off++ {
			one := KwPrint + " " + FnClock + "();"
			prog5 := lines(c17Mark, one, c17Mark, one, c17Mark, one, c17Mark, one, c17Mark, one)
			c := scriptCfg(prog5, "m\nm\nm\nm\nm\nm\n")
			c.ClockStartMs = base + off
			c.ClockStepsMs = []int64{1, 1, 1, 1, 1}
			c.ClockNs = 500000
			cs := &Case{Prop: "C17", Kind: "clock", Sig: "boundary", Program: prog5, Runs: []Run{{Role: "clock", Cfg: c}}}
			cs.Aux = &Aux{C17: &C17Expect{PrintOrder: []int{0, 1, 2, 3, 4}, Calls: 5}}
			out = append(out, cs)
		}
	}
	// ক্লক() at the bottom of a deep recursion: wherever plain recursion of that depth is
	// allowed (the limit itself is not fixed by any property), reading the clock there is too
	for _, depth := range []int{2000, 19999, 49999} {
		plain := lines(fmt.Sprintf("%s down(n) { %s (n > 0) { %s down(n - 1); } %s 7; }", KwFun, KwIf, KwReturn, KwReturn), fmt.Sprintf("%s down(%d);", KwPrint, depth))
		p := lines(fmt.Sprintf("%s down(n) { %s (n > 0) { %s down(n - 1); } %s %s %s(); }", KwFun, KwIf, KwReturn, c17Mark, KwReturn, FnClock), fmt.Sprintf("%s down(%d);", KwPrint, depth))
		c0 := scriptCfg(plain, "")
		c0.Budget = 60000000
		c := scriptCfg(p, "m\nm\n")
		c.Budget = 60000000
		c.ClockStartMs = 1_727_000_000_000
		cs := &Case{Prop: "C17", Kind: "clock-deep", Sig: fmt.Sprintf("deep:%d", depth), Program: p, Runs: []Run{{Role: "fresh-process:clock", Cfg: c}, {Role: "fresh-process:plain", Cfg: c0}}}
		cs.Aux = &Aux{C17: &C17Expect{PrintOrder: []int{0}, Calls: 1}}
		out = append(out, cs)
	}
	// in interactive mode every line sees the real ক্লক, whatever an earlier line did to the name
	{
		stdin := lines(FnClock+" = 0;", KwVar+" keep = "+FnClock+";", KwPrint+" \"#A#\";", c17Mark, "m", KwPrint+" "+FnClock+"();", KwPrint+" \"#B#\";")
		c := replCfg(stdin)
		c.ClockStartMs = 1_727_000_000_000
		cs := &Case{Prop: "C17", Kind: "clock-repl", Sig: "repl:rebound-earlier", Program: stdin, Runs: []Run{{Role: "clock", Cfg: c}}}
		cs.Aux = &Aux{C17: &C17Expect{PrintOrder: []int{0}, Calls: 1}}
		out = append(out, cs)
	}
	// misuse through callees that are not plain names
	for _, call := range []string{"(" + FnClock + ")(1)", "[" + FnClock + "][0](1)", "({f: " + FnClock + "}).f(nil)", "h(" + FnClock + ")", FnClock + "(" + FnClock + "())"} {
		p := lines(KwFun+" h(f) { "+KwReturn+" f(1, 2); }", KwPrint+" \"a\";", KwPrint+" "+call+";", KwPrint+" \"b\";")
		cs := &Case{Prop: "C17", Kind: "arity", Sig: "arity-indirect:" + call, Program: p, Runs: []Run{{Role: "clock", Cfg: scriptCfg(p, "")}}}
		cs.Aux = &Aux{C17: &C17Expect{Arity: true}}
		out = append(out, cs)
	}
	// misuse: ক্লক(1) is a runtime error
	for _, args := range []string{"1", "1, 2", "nil"} {
		p := lines(KwPrint+" \"a\";", KwPrint+" "+FnClock+"("+args+");", KwPrint+" \"b\";")
		cs := &Case{Prop: "C17", Kind: "arity", Sig: "arity:" + args, Program: p, Runs: []Run{{Role: "clock", Cfg: scriptCfg(p, "")}}}
		cs.Aux = &Aux{C17: &C17Expect{Arity: true}}
		out = append(out, cs)
	}
	return out
}

func c17Eval(cs *Case, ctx *EvalCtx) []Violation {
	obs := ctx.RunAll(cs)
	o := obs[0]
	ex := cs.Aux.C17
	var vs []Violation
	add := func(class, msg string) {
		vs = append(vs, Violation{Prop: "C17", Class: "C17/" + class, Sig: cs.Sig, Msg: msg, Run: 0})
	}
	if o.Res.Panic != "" {
		add("host-panic", o.Res.Panic)
		return vs
	}
	if o.Res.Budget {
		add("no-termination", "step budget exceeded")
		return vs
	}
	if cs.Kind == "clock-deep" && (obs[1].ExitStatus() != 0 || obs[1].Stdout != "7\n") {
		// plain recursion of this depth is not allowed on this tree: nothing to demand
		if ctx.Stats != nil {
			ctx.Stats.Count("info.recursion_depth_not_allowed_"+cs.Sig, 1)
		}
		return vs
	}
	if ex.Arity {
		if o.FirstErr < 0 || o.ExitStatus() != 70 || o.Stdout != "a\n" {
			add("clock-misuse-accepted", fmt.Sprintf("ক্লক with arguments must be a runtime error: exit=%d stdout=%q stderr=%q", o.ExitStatus(), o.Stdout, o.Stderr))
		}
		return vs
	}
	if cs.Kind != "clock-repl" && (o.FirstErr >= 0 || o.ExitStatus() != 0) {
		add("unexpected-diagnostic", fmt.Sprintf("exit=%d stderr=%q", o.ExitStatus(), o.Stderr))
		return vs
	}
	// For every ক্লক() call: the simulated wall clock when the marker right before it was
	// printed, and every reading of the clock taken from then until the next marker. How many
	// readings an implementation takes, and when (at start-up, per call, twice per call,
	// none because it believes it knows), is its own business; the value must be the current time.
	type callRef struct {
		at    int64   // wall clock (ms) at the marker
		reads []int64 // wall-clock readings taken after it
	}
	// Where does call k begin in the history? Three independent witnesses, the first whose count
	// fits is used: the entry of the built-in's Call method (absent if an implementation answers
	// without calling it, or dispatches built-ins differently), the read of standard input by the
	// ইনপুট() placed right before every call (input arrives line by line, so every ইনপুট must
	// really read), the marker print (useless if output is buffered until the end).
	var byBuiltin, byRead, byOut []int
	for i, e := range o.Res.Events {
		switch e.Kind {
		case "BUILTIN":
			if !strings.Contains(e.Data, "Input") {
				byBuiltin = append(byBuiltin, i)
			}
		case "READ":
			if e.N > 0 {
				byRead = append(byRead, i)
			}
		case "OUT":
			if strings.Contains(e.Data, "@c") {
				byOut = append(byOut, i)
			}
		}
	}
	if cs.Kind == "clock-repl" {
		// the prompt itself reads every line: the call begins when the line holding it has been read
		byRead = nil
		for i, e := range o.Res.Events {
			if e.Kind == "READ" && e.N > 0 && strings.Contains(e.Data, KwPrint+" "+FnClock+"()") {
				byRead = append(byRead, i)
			}
		}
		if len(byBuiltin) > 1 {
			byBuiltin = byBuiltin[len(byBuiltin)-1:]
		}
	}
	var starts []int
	switch {
	case len(byBuiltin) == ex.Calls:
		starts = byBuiltin
	case len(byRead) == ex.Calls:
		starts = byRead
	case len(byOut) == ex.Calls:
		starts = byOut
	default:
		fatal2("C17: cannot tell where the %d ক্লক() calls begin in the history (%d built-in entries, %d marker reads, %d marker prints): stdout=%q stderr=%q", ex.Calls, len(byBuiltin), len(byRead), len(byOut), o.Stdout, o.Stderr)
	}
	var refs []callRef
	for k, st := range starts {
		end := len(o.Res.Events)
		if k+1 < len(starts) {
			end = starts[k+1]
		}
		r := callRef{at: o.Res.Events[st].T}
		for _, e := range o.Res.Events[st:end] {
			if e.Kind == "NOW" {
				r.reads = append(r.reads, e.N)
			}
		}
		refs = append(refs, r)
	}
	// nows[k]: the instant call k is held to when two calls are compared (its last reading, or the marker if it took none)
	nows := make([]int64, len(refs))
	for k, r := range refs {
		nows[k] = r.at
		if len(r.reads) > 0 {
			nows[k] = r.reads[len(r.reads)-1]
		}
	}
	stdout := o.Stdout
	if cs.Kind == "clock-repl" {
		// the value sits between the two marker lines; whatever the prompt looks like,
		// the number is the trailing numeral of the line that follows the call marker
		a := strings.Index(stdout, "#A#\n")
		b := strings.Index(stdout, "#B#\n")
		val := ""
		if a >= 0 && b > a {
			segLines := strings.Split(stdout[a+4:b], "\n")
			seen := false
			for _, l := range segLines {
				if strings.HasSuffix(l, "@c") {
					seen = true
					continue
				}
				if seen {
					// (the marker's ইনপুট() echoes the line it read; the number comes after it)
					if val = regexp.MustCompile(`[-+]?[0-9]*\.?[0-9]+(?:[eE][-+]?[0-9]+)?$`).FindString(l); val != "" {
						break
					}
				}
			}
		}
		stdout = ""
		if val != "" {
			stdout = val + "\n"
		}
	}
	var ls []string
	for _, l := range strings.Split(strings.TrimSuffix(stdout, "\n"), "\n") {
		if l != "@c" && stdout != "" {
			ls = append(ls, l)
		}
	}
	if len(ls) != len(ex.PrintOrder) {
		add("output-shape", fmt.Sprintf("expected %d printed values, got %q", len(ex.PrintOrder), o.Stdout))
		return vs
	}
	for k, l := range ls {
		v, err := strconv.ParseFloat(l, 64)
		if err != nil {
			add("not-a-number", fmt.Sprintf("printed value %q is not a number", l))
			return vs
		}
		r := refs[ex.PrintOrder[k]]
		okv := !math.IsNaN(v) && math.Abs(v-float64(r.at)/1000.0) < 1.0
		for _, n := range r.reads {
			if !math.IsNaN(v) && math.Abs(v-float64(n)/1000.0) < 1.0 {
				okv = true
			}
		}
		if !okv {
			add("wrong-time", fmt.Sprintf("print %d (call %d) shows %v but the wall clock stood at %v s when ক্লক was called (readings taken during the call: %v ms; start %d ms, steps %v, %d us per step)", k, ex.PrintOrder[k], v, float64(r.at)/1000.0, r.reads, cs.Runs[0].Cfg.ClockStartMs, cs.Runs[0].Cfg.ClockStepsMs, cs.Runs[0].Cfg.ClockTickUs))
			return vs
		}
	}
	// a later instant never reads as an earlier time, the same instant reads the same. A call's
	// instant is only known as a span (the marker and every reading taken until the next one —
	// readings may also come from a goroutine of the implementation), so only spans that do not
	// overlap are compared.
	vals := make([]float64, len(ls))
	for k, l := range ls {
		vals[k], _ = strconv.ParseFloat(l, 64)
	}
	span := func(r callRef) (lo, hi int64) {
		lo, hi = r.at, r.at
		for _, n := range r.reads {
			if n < lo {
				lo = n
			}
			if n > hi {
				hi = n
			}
		}
		return
	}
	for a := 0; a < len(vals); a++ {
		for b := 0; b < len(vals); b++ {
			loA, hiA := span(refs[ex.PrintOrder[a]])
			loB, hiB := span(refs[ex.PrintOrder[b]])
			if hiA < loB && vals[a] > vals[b] {
				add("clock-not-monotonic", fmt.Sprintf("the wall clock went from (at most) %d ms to (at least) %d ms but ক্লক() went from %v to %v", hiA, loB, vals[a], vals[b]))
				return vs
			}
			if loA == hiA && loB == hiB && loA == loB && vals[a] != vals[b] {
				add("clock-not-monotonic", fmt.Sprintf("two calls at the same instant (%d ms) gave %v and %v", loA, vals[a], vals[b]))
				return vs
			}
		}
	}
	if ctx.Stats != nil {
		st := ctx.Stats
		c := cs.Runs[0].Cfg
		nondef := false
		for _, s := range c.ClockStepsMs {
			if s != 1 {
				nondef = true
			}
			if s == 0 {
				st.Count("reach.clock_zero_step", 1)
			}
		}
		for _, t := range nows {
			if t < 0 {
				st.Count("reach.clock_negative_epoch", 1)
				break
			}
		}
		for _, t := range nows {
			if t > 4_000_000_000_000 {
				st.Count("reach.clock_far_future", 1)
				break
			}
		}
		if nondef {
			st.Seen("c17_clock_scripts", fmt.Sprintf("%s|%d|%v|%d", cs.Sig, c.ClockStartMs, c.ClockStepsMs, c.ClockNs))
		}
	}
	return vs
}
