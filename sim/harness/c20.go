package main

import (
	"fmt"
	"strings"

	sim "github.com/ah-naf/borno/verifsimrt"
)

// C20 — in the REPL a failed line never affects later lines; expression values echo.
//
// A session is a history of lines, failing ones included (the fault sequence).
// Between pool lines the generator inserts marker lines; the response to line
// i is everything written to stdout and stderr between marker i-1 and marker
// i. The oracle is the property's own: that response must equal the response
// the same line gets as the first line of a fresh session.

type C20Expect struct {
	Lines     []string `json:"lines"`
	Names     []string `json:"names"`
	Classes   []string `json:"classes"`
	Sessions  int      `json:"sessions"`             // Runs[0:Sessions] are the session under different deliveries
	FreshOf   []int    `json:"fresh_of"`             // FreshOf[i] = index into Runs of the fresh session for line i
	JudgeUpTo int      `json:"judge_up_to,omitempty"` // EIO injected: only responses before this line are judged (0 = all)
	Echo      bool     `json:"echo,omitempty"`       // Runs = [fresh(E;), fresh(print E;)]
}

type c20Line struct {
	name, class, text string
}

// c20Known: stdout text that certain pool lines produce by construction (a
// printed literal, an echoed literal). Used only for the "response arrives
// before the next line is read" check, never for comparing whole responses.
var c20Known = map[string]string{
	"print-num": "1\n", "print-str": "hi\n", "print-arith": "7\n", "expr-num": "5\n", "expr-arith": "3\n", "expr-str": "abc\n",
	"expr-true": "true\n", "expr-nil": "nil\n", "rt-mid-line": "1\n", "rt-print-then-break": "31\n", "rt-print-then-continue": "32\n", "rt-print-then-return": "33\n", "rt-echo-then-break": "34\n", "rt-in-for": "0\n", "multi-var-print": "4\n", "multi-func": "16\n",
	"multi-for": "0\n1\n", "rt-print-then-fail-in-func": "8\n", "long-print-ascii": c20Long(5000, "x") + "\n", "long-print-bangla": c20Long(1500, "\u0995") + "\n", "long-expr": "1401\n", "print-open-brace-string": "{\n", "print-open-paren-string": "([\n", "multi-brace-in-property": "{\n", "crlf-print": "42\n", "input-one": "p[hello]\n", "input-two": "abcd\n", "input-echo": "spaced out\n", "huge-print": c20Long(70000, "z") + "\n", "long-rt": c20Long(4090, "y") + "\n", "str-backslash": "a\\b\n",
}

func c20Long(n int, unit string) string { return strings.Repeat(unit, n) }

var c20Pool = []c20Line{
	// printing statements
	{"print-num", "print", KwPrint + " 1;"},
	{"print-str", "print", KwPrint + " \"hi\";"},
	{"print-arith", "print", KwPrint + " 1 + 2 * 3;"},
	{"print-array", "print", KwPrint + " [1, 2];"},
	{"print-builtin", "print", KwPrint + " " + FnLen + "([1, 2, 3]);"},
	{"print-max", "print", KwPrint + " " + FnMax + "(1, 7, 3);"},
	// bare expressions (echoed)
	{"expr-num", "expr", "5;"},
	{"expr-arith", "expr", "1 + 2;"},
	{"expr-str", "expr", "\"abc\";"},
	{"expr-true", "expr", KwTrue + ";"},
	{"expr-nil", "expr", "nil;"},
	{"expr-cmp", "expr", "2 < 3;"},
	{"expr-streq", "expr-streq", "\"a\" == \"a\";"},
	{"expr-strne", "expr-streq", "\"a\" != \"b\";"},
	{"expr-arreq", "expr-refeq", "[1] == [1];"},
	{"expr-objeq", "expr-refeq", "({a: 1}) == ({a: 1});"},
	{"expr-shl", "expr", "1 << 3;"},
	{"expr-shl-neg", "expr-negshift", "1 << -1;"},
	{"expr-shr-neg", "expr-negshift", "8 >> -2;"},
	{"expr-array", "expr", "[1, 2, 3];"},
	{"expr-object", "expr", "({a: 1});"},
	{"expr-builtin", "expr", FnLen + "([1]);"},
	{"expr-sqrt", "expr", FnSqrt + "(16);"},
	{"expr-not", "expr", "!" + KwTrue + ";"},
	{"expr-neg", "expr", "-5;"},
	{"expr-pow", "expr", "2 ** 10;"},
	{"expr-mod", "expr", "7 % 3;"},
	{"expr-concat", "expr", "\"a\" + \"b\";"},
	{"expr-numeq", "expr", "1 == 1;"},
	{"expr-or", "expr", KwFalse + " " + KwOr + " 3;"},
	// assignments to the names of built-ins (allowed: they are ordinary globals of that line's interpreter)
	{"assign-builtin-len", "assign-builtin", FnLen + " = 0;"},
	{"assign-builtin-max", "assign-builtin", FnMax + " = nil;"},
	{"assign-builtin-fail", "assign-builtin-rt", FnLen + " = 0; " + FnLen + "([1]);"},
	{"assign-builtin-keys", "assign-builtin", FnKeys + " = \"x\"; " + KwPrint + " " + FnKeys + ";"},
	{"assign-builtin-input", "assign-builtin", FnInput + " = 1;"},
	{"use-max", "print", KwPrint + " " + FnMax + "(2, 9);"},
	{"use-keys", "print", KwPrint + " " + FnKeys + "({a: 1});"},
	// strings with backslashes (a backslash is an ordinary character)
	{"str-backslash", "print", KwPrint + " \"a\\b\";"},
	{"str-trailing-backslash", "print", KwPrint + " \"q\\\";"},
	{"lex-unterminated-backslash", "lex", KwPrint + " \"C:\\tmp\\"},
	{"lex-backslash", "lex", "1 \\ 2;"},
	// objects and arrays mutated on one line
	{"multi-object", "multi", KwVar + " o = {a: 1}; o.b = 2; " + KwPrint + " " + FnKeys + "(o);"},
	{"multi-array", "multi", KwVar + " a = [1]; a = " + FnAppend + "(a, 2); " + KwPrint + " a;"},
	// a line that printed something and then fails inside a function
	{"rt-print-then-fail-in-func", "rt-nested", KwFun + " g() { " + KwPrint + " 8; " + KwReturn + " 1 / 0; } " + KwVar + " z = g();"},
	// an error 300 calls deep: every frame unwinds
	{"rt-deep-recursion", "rt-deep", KwFun + " r(n) { " + KwIf + " (n > 0) { " + KwReturn + " r(n - 1); } " + KwReturn + " 1 / 0; } r(300);"},
	{"ok-deep-recursion", "multi", KwFun + " r(n) { " + KwIf + " (n > 0) { " + KwReturn + " r(n - 1); } " + KwReturn + " 7; } " + KwPrint + " r(300);"},
	// lines longer than a 4096-byte buffer (ASCII and three-byte letters)
	{"long-print-ascii", "long", KwPrint + " \"" + c20Long(5000, "x") + "\";"},
	{"long-print-bangla", "long", KwPrint + " \"" + c20Long(1500, "\u0995") + "\";"},
	{"long-expr", "long", "1" + c20Long(1400, " + 1") + ";"},
	{"long-rt", "long-rt", KwPrint + " \"" + c20Long(4090, "y") + "\"; nx;"},
	{"huge-print", "long", KwPrint + " \"" + c20Long(70000, "z") + "\";"},
	// lines that read their data from the following stdin line(s): the data belongs to
	// the line that asked for it, whatever way stdin is delivered
	{"input-one", "input", KwPrint + " \"[\" + " + FnInput + "(\"p\") + \"]\";\nhello"},
	{"input-two", "input", KwPrint + " " + FnInput + "() + " + FnInput + "();\nab\ncd"},
	{"input-then-fail", "input-rt", KwPrint + " " + FnInput + "(\"q\") + nx;\nzz"},
	{"input-echo", "input", FnInput + "();\n  spaced out  "},
	// a call that fails before its arguments are looked at: the arguments (which would
	// read input) are never evaluated, so the next line is still a program line
	{"rt-not-callable-input-arg", "rt", "5(" + FnInput + "());"},
	{"rt-arity-input-args", "rt", FnLen + "(" + FnInput + "(), " + FnInput + "());"},
	{"rt-arity-user-input-args", "rt", KwFun + " one(a) { " + KwReturn + " a; } one(" + FnInput + "(), " + FnInput + "());"},
	// bytes that are not valid UTF-8
	{"lex-invalid-utf8-ident", "lex", KwVar + " \xe0\xa6 = 1;"},
	{"invalid-utf8-in-string", "print-bytes", KwPrint + " \"x\xffy\" + 1;"},
	{"lex-lone-continuation", "lex", "\x80\x80;"},
	// a line ending in CR LF
	{"crlf-print", "print", KwPrint + " 41 + 1;\r"},
	{"crlf-error", "rt", "nx;\r"},
	// one line with 1200 stray characters (1200 diagnostics)
	{"lex-1200-strays", "lex", c20Long(1200, "@ ")},
	// a literal too large for a number
	{"lex-number-too-large", "lex", "1" + c20Long(400, "0") + ";"},
	// indexing something that is not an array (strings of either representation)
	{"rt-index-concat-string", "rt", "(\"\u0995\" + \"\u0996\")[2];"},
	{"rt-index-literal-string", "rt", "\"abc\"[0];"},
	{"rt-index-concat-string-far", "rt", "(\"a\" + \"b\")[5];"},
	// a failing line that contains a bare return inside a function
	{"rt-with-bare-return", "rt-nested", KwFun + " f() { " + KwReturn + "; } f(); nx;"},
	{"rt-block-with-bare-return", "rt-nested", "{ " + KwFun + " f() { " + KwReturn + "; } f(); nx; }"},
	// brackets that only occur inside strings
	{"print-open-brace-string", "print", KwPrint + " \"{\";"},
	{"print-open-paren-string", "print", KwPrint + " \"(\" + \"[\";"},
	{"multi-brace-in-property", "multi", KwVar + " o = {}; o.k = \"{\"; " + KwPrint + " o.k;"},
	// silent statements
	{"silent-var", "silent", KwVar + " y = 5;"},
	{"silent-block", "silent", "{ }"},
	{"silent-empty", "silent", ""},
	{"silent-comment", "silent", "// just a comment"},
	{"silent-blank", "silent", "   "},
	{"silent-func", "silent", KwFun + " f() { " + KwReturn + " 1; }"},
	// valid multi-statement lines
	{"multi-var-print", "multi", KwVar + " x = 2; " + KwPrint + " x * x;"},
	{"multi-func", "multi", KwFun + " sq(n) { " + KwReturn + " n * n; } " + KwPrint + " sq(4);"},
	{"multi-for", "multi", KwFor + " (" + KwVar + " i = 0; i < 2; i = i + 1) { " + KwPrint + " i; }"},
	// lexical errors
	{"lex-at", "lex", "@"},
	{"lex-unterminated-string", "lex", KwPrint + " \"abc;"},
	{"lex-unterminated-comment", "lex", "/* open"},
	{"lex-after-stmt", "lex", KwPrint + " 1; #"},
	// syntax errors
	{"syn-print-nothing", "syn", KwPrint + " ;"},
	{"syn-unbalanced", "syn", "(1 + 2;"},
	{"syn-var-noname", "syn", KwVar + " = 3;"},
	{"syn-lenient-semicolon", "syn", KwPrint + " 1 " + KwPrint + " 2;"},
	{"syn-close-brace", "syn", "}"},
	{"syn-open-brace", "syn", "{"},
	{"syn-if-nobody", "syn", KwIf + " (" + KwTrue + ")"},
	// runtime errors
	{"rt-undefined", "rt", "nx;"},
	{"rt-zero-div", "rt", "1 / 0;"},
	{"rt-bad-index", "rt", "[1][2];"},
	{"rt-type", "rt", "nil + 1;"},
	{"rt-builtin", "rt", FnLen + "(5);"},
	{"rt-not-callable", "rt", "5();"},
	{"rt-arity", "rt", FnLen + "();"},
	{"rt-missing-prop", "rt", "({a: 1}).b;"},
	{"rt-break", "rt", KwBreak + ";"},
	{"rt-return", "rt", KwReturn + " 1;"},
	{"rt-redecl", "rt", KwVar + " a = 1, a = 2;"},
	{"rt-in-while", "rt-nested", KwWhile + " (" + KwTrue + ") { nx; }"},
	{"rt-in-block", "rt-nested", "{ nx; " + KwPrint + " 9; }"},
	{"rt-in-func", "rt-nested", KwFun + " f() { nx; " + KwPrint + " 8; } f(); " + KwPrint + " 7;"},
	{"rt-in-for", "rt-nested", KwFor + " (" + KwVar + " i = 0; i < 3; i = i + 1) { " + KwPrint + " i; nx; }"},
	{"rt-mid-line", "rt-nested", KwPrint + " 1; nx; " + KwPrint + " 2;"},
	// output, then a stray jump statement: what was printed belongs to THIS response
	{"rt-print-then-break", "rt-nested", KwPrint + " 31; " + KwBreak + ";"},
	{"rt-print-then-continue", "rt-nested", KwPrint + " 32; " + KwContinue + ";"},
	{"rt-print-then-return", "rt-nested", KwPrint + " 33; " + KwReturn + " 1;"},
	{"rt-echo-then-break", "rt-nested", "34; " + KwBreak + ";"},
	{"rt-print-operand", "rt", KwPrint + " 1 + nil;"},
}

// echo: a bare expression statement prints what দেখাও prints for it
var c20Echo = []string{"5", "0", "-5", "1 + 2", "2.5", "1000000", "0.1 + 0.2", "\"abc\"", "\"\"", "\"a b\"", KwTrue, KwFalse, "nil", "2 < 3", "!" + KwTrue, "\"a\" + 1", "7 % 3", "2 ** 10", "1 == 2", "(3)", FnLen + "([1, 2])",
	// text that would mean something to a formatter, an escape-less backslash, Bangla, a long value
	"\"50% off\"", "\"%%\"", "\"100%\"", "\"%s and %d\"", "\"a\\nb\"", "\"\u0995\u09b2\u09ae %v\"", "\"x\" + \"%\" + \"y\"", "[1, \"%d\"]", "({k: \"%s\"})"}

func c20Marker(i int) string { return fmt.Sprintf("%s \"#%d#\";", KwPrint, i) }

func c20SessionStdin(ls []string) string {
	var b strings.Builder
	for i, l := range ls {
		b.WriteString(l)
		b.WriteByte('\n')
		b.WriteString(c20Marker(i))
		b.WriteByte('\n')
	}
	return b.String()
}

// c20FreshStdin: the fresh session a line is compared against. It starts with a
// warm-up marker line so that whatever the REPL prints once at start-up (a
// banner) is not mistaken for part of the line's response; the line under test
// is still the first line that does anything.
func c20FreshStdin(line string) string {
	return KwPrint + " \"#W#\";\n" + line + "\n" + c20Marker(0) + "\n"
}

// c20FreshSeg extracts the response to the line under test from a fresh session.
func c20FreshSeg(r sim.Result) (c20Seg, bool) {
	var so strings.Builder
	for _, e := range r.Events {
		if e.Kind == "OUT" {
			so.WriteString(e.Data)
		}
	}
	w := strings.Index(so.String(), "#W#\n")
	if w < 0 {
		return c20Seg{}, false
	}
	// re-split after the warm-up marker: drop the events before it
	cut := w + len("#W#\n")
	var ev []sim.Event
	off := 0
	for _, e := range r.Events {
		if e.Kind == "OUT" {
			a, b := off, off+len(e.Data)
			off = b
			if b <= cut {
				continue
			}
			if a < cut {
				e.Data = e.Data[cut-a:]
			}
			ev = append(ev, e)
		} else if e.Kind == "ERR" {
			if off >= cut {
				ev = append(ev, e)
			}
		}
	}
	r2 := r
	r2.Events = ev
	sg, f, _ := c20Split(r2, 1)
	return sg[0], f[0]
}

func c20Case(pool []c20Line, deliveries []sim.Config, roles []string, tag string) *Case {
	ax := &C20Expect{}
	var ls []string
	for _, l := range pool {
		ls = append(ls, l.text)
		ax.Lines = append(ax.Lines, l.text)
		ax.Names = append(ax.Names, l.name)
		ax.Classes = append(ax.Classes, l.class)
	}
	cs := &Case{Prop: "C20", Kind: "session", Program: strings.Join(ls, "\n"), Notes: []string{tag}}
	for i, c := range deliveries {
		cs.Runs = append(cs.Runs, Run{Role: "session:" + roles[i], Cfg: c})
	}
	ax.Sessions = len(cs.Runs)
	seen := map[string]int{}
	for _, l := range pool {
		if idx, ok := seen[l.text]; ok {
			ax.FreshOf = append(ax.FreshOf, idx)
			continue
		}
		idx := len(cs.Runs)
		seen[l.text] = idx
		ax.FreshOf = append(ax.FreshOf, idx)
		cs.Runs = append(cs.Runs, Run{Role: "fresh:" + l.name, Cfg: replCfg(c20FreshStdin(l.text))})
	}
	var cl []string
	for _, l := range pool {
		cl = append(cl, l.class)
	}
	cs.Sig = strings.Join(cl, ",")
	cs.Aux = &Aux{C20: ax}
	return cs
}

func c20Systematic(tier string) []*Case {
	var out []*Case
	// every pool line alone, and every ordered pair (failing or not) of pool lines: A then B
	for _, a := range c20Pool {
		base := replCfg(c20SessionStdin([]string{a.text}))
		out = append(out, c20Case([]c20Line{a}, []sim.Config{withDelivery(base, "line"), withDelivery(base, "all")}, []string{"line", "all"}, "single"))
	}
	for _, a := range c20Pool {
		for _, b := range c20Pool {
			base := replCfg(c20SessionStdin([]string{a.text, b.text}))
			out = append(out, c20Case([]c20Line{a, b}, []sim.Config{withDelivery(base, "all")}, []string{"all"}, "pair"))
		}
	}
	// the same failing line many times, then lines that use built-ins and user functions:
	// whatever a failing line leaves behind must not accumulate
	probes := []c20Line{}
	for _, l := range c20Pool {
		switch l.name {
		case "print-builtin", "expr-sqrt", "use-max", "multi-func", "ok-deep-recursion", "print-num":
			probes = append(probes, l)
		}
	}
	for _, a := range c20Pool {
		failing := strings.HasPrefix(a.class, "rt") || strings.HasPrefix(a.class, "lex") || strings.HasPrefix(a.class, "syn") || strings.HasPrefix(a.class, "assign") || a.class == "long-rt"
		if !failing {
			continue
		}
		for _, k := range []int{4, 40} {
			if k == 40 && strings.HasPrefix(a.class, "long") {
				continue
			}
			var sess []c20Line
			for i := 0; i < k; i++ {
				sess = append(sess, a)
			}
			sess = append(sess, probes...)
			var ls []string
			for _, l := range sess {
				ls = append(ls, l.text)
			}
			base := replCfg(c20SessionStdin(ls))
			base.Budget = 30000000
			if k == 4 {
				// the user takes three seconds per line (matters only to a tree with timers: whatever
				// a failing line leaves running fires during a later line)
				base.ReadDelayMs, base.SchedSeed, base.SchedQuantum = 3000, 7, 20
			}
			out = append(out, c20Case(sess, []sim.Config{withDelivery(base, "all")}, []string{"all"}, "repeat"))
		}
	}
	// every confirmed built-in misuse and a fifth of the operator misuses as a REPL line:
	// the session must survive and the next line must be answered
	{
		var lines []c20Line
		for i, bm := range c06BuiltinMisuse {
			lines = append(lines, c20Line{fmt.Sprintf("misuse-builtin-%d", i), "rt-misuse", bm.fn + "(" + bm.args + ");"})
		}
		for i := 0; i < len(c06OperatorMisuse); i += 5 {
			lines = append(lines, c20Line{fmt.Sprintf("misuse-operator-%d", i), "rt-misuse", c06OperatorMisuse[i] + ";"})
		}
		probe := c20Line{"print-builtin", "print", KwPrint + " " + FnLen + "([1, 2, 3]);"}
		for i := 0; i+2 < len(lines); i += 3 {
			sess := []c20Line{lines[i], lines[i+1], lines[i+2], probe}
			var ls []string
			for _, l := range sess {
				ls = append(ls, l.text)
			}
			out = append(out, c20Case(sess, []sim.Config{withDelivery(replCfg(c20SessionStdin(ls)), "all")}, []string{"all"}, "misuse"))
		}
	}
	// lines that exhaust a resource of the host (unbounded recursion): a failing line
	// may not end the session. Run in a process of their own, because what they
	// provoke on a tree without a guard (a Go stack overflow) cannot be recovered.
	for _, l := range []c20Line{
		{"rt-unbounded-recursion", "rt-recursion", KwFun + " f() { " + KwReturn + " f(); } f();"},
		{"rt-unbounded-mutual-recursion", "rt-recursion", KwFun + " a(n) { " + KwReturn + " b(n + 1); } " + KwFun + " b(n) { " + KwReturn + " a(n) + 1; } a(0);"},
		{"rt-unbounded-recursion-in-args", "rt-recursion", KwFun + " g(x) { " + KwReturn + " g([x, g(x)]); } " + KwPrint + " g(1);"},
		{"rt-unbounded-recursion-heavy-frames", "rt-recursion", KwFun + " f(n) { " + KwIf + " (n >= 0) { " + KwIf + " (" + KwTrue + ") { { " + KwReturn + " [1, [2, {a: 1 + (2 * (3 + (4 * (5 + f(n + 1)))))}]]; } } } } f(0);"},
		{"rt-unbounded-recursion-nested-parens", "rt-recursion", KwFun + " p(n) { " + KwReturn + " " + strings.Repeat("(", 120) + "p(n + 1)" + strings.Repeat(")", 120) + "; } p(0);"},
	} {
		cfg := replCfg(c20SessionStdin([]string{l.text, KwPrint + " 1 + 2;"}))
		cfg.Budget = 400000000
		cs := &Case{Prop: "C20", Kind: "survive", Sig: "by:" + l.name, Program: l.text, Runs: []Run{{Role: "fresh-process:session", Cfg: cfg}}}
		cs.Aux = &Aux{C20: &C20Expect{Lines: []string{l.text}}}
		out = append(out, cs)
	}
	// a failure 30 000 calls deep, three times, then ordinary lines (kept out of the general
	// pool: growing a goroutine stack that far costs a noticeable fraction of a second per run)
	{
		deep := c20Line{"rt-very-deep-recursion", "rt-deep", KwFun + " r(n) { " + KwIf + " (n > 0) { " + KwReturn + " r(n - 1); } " + KwReturn + " 1 / 0; } r(30000);"}
		sess := []c20Line{deep, deep, deep}
		for _, l := range c20Pool {
			switch l.name {
			case "print-builtin", "multi-func", "ok-deep-recursion", "expr-sqrt":
				sess = append(sess, l)
			}
		}
		var ls []string
		for _, l := range sess {
			ls = append(ls, l.text)
		}
		base := replCfg(c20SessionStdin(ls))
		base.Budget = 50000000
		cs := c20Case(sess, []sim.Config{withDelivery(base, "all")}, []string{"all"}, "very-deep")
		for i := range cs.Runs {
			cs.Runs[i].Cfg.Budget = 50000000
		}
		out = append(out, cs)
	}
	// marathons: 1500-line sessions cycling through the whole pool in two different orders —
	// whatever a line leaves behind (a pooled buffer, a cache entry, a counter, a scope) must
	// not build up until the N-th line answers differently from a fresh session
	for _, stride := range []int{1, 37} {
		var cheap []c20Line
		for _, l := range c20Pool {
			if strings.HasPrefix(l.class, "long") || strings.Contains(l.name, "deep") {
				continue
			}
			cheap = append(cheap, l)
		}
		var sess []c20Line
		var ls []string
		for i := 0; i < 1500; i++ {
			l := cheap[(i*stride)%len(cheap)]
			sess = append(sess, l)
			ls = append(ls, l.text)
		}
		base := replCfg(c20SessionStdin(ls))
		base.Budget = 200000000
		base.ReadDelayMs, base.SchedSeed, base.SchedQuantum, base.ClockTickUs = int64(250*stride), int64(stride), 50, 100
		cs := c20Case(sess, []sim.Config{withDelivery(base, "all")}, []string{"all"}, "marathon")
		cs.Sig = fmt.Sprintf("marathon:stride%d", stride)
		out = append(out, cs)
	}
	// echo
	for _, e := range c20Echo {
		cs := &Case{Prop: "C20", Kind: "echo", Sig: "echo:" + e, Program: e + ";"}
		cs.Runs = []Run{
			{Role: "bare", Cfg: replCfg(c20FreshStdin(e + ";"))},
			{Role: "print", Cfg: replCfg(c20FreshStdin(KwPrint + " " + e + ";"))},
		}
		cs.Aux = &Aux{C20: &C20Expect{Echo: true}}
		out = append(out, cs)
	}
	// end of input ends the session with status 0, also right after a failing line without newline
	var eofLines []c20Line
	seenClass := map[string]bool{}
	for _, l := range c20Pool {
		if !seenClass[l.class] {
			seenClass[l.class] = true
			eofLines = append(eofLines, l)
		}
	}
	for _, l := range eofLines {
		c := replCfg(l.text) // no trailing newline, no marker
		cs := &Case{Prop: "C20", Kind: "eof", Sig: "eof-after:" + l.class, Program: l.text, Runs: []Run{{Role: "nonl", Cfg: c}}}
		cs.Aux = &Aux{C20: &C20Expect{}}
		out = append(out, cs)
	}
	return out
}

func c20Random(s Src, tier string) *Case { return applySched(s, c20Random1(s, tier), true) }

func c20Random1(s Src, tier string) *Case {
	n := s.Int("nlines", 2, 12)
	if Chance(s, "longsession", 1, 12) {
		n = s.Int("nlines2", 13, 60)
	}
	var pool []c20Line
	for i := 0; i < n; i++ {
		if Chance(s, "genline", 1, 4) {
			// a line straight from the grammar (no prediction needed: the oracle is the fresh session)
			if Chance(s, "validline", 1, 3) {
				// a whole valid-by-construction program (closures, containers of functions, loops) on one line
				prog, _ := validProgramOpt(s, true)
				pool = append(pool, c20Line{fmt.Sprintf("valid%d", i), "gen", strings.Join(strings.Fields(strings.ReplaceAll(prog, "\n", " ")), " ")})
				continue
			}
			pool = append(pool, c20Line{fmt.Sprintf("gen%d", i), "gen", randomLine(s)})
			continue
		}
		pool = append(pool, c20Pool[s.Int("line", 0, len(c20Pool)-1)])
	}
	var ls []string
	for _, l := range pool {
		ls = append(ls, l.text)
	}
	stdin := c20SessionStdin(ls)
	eio := Chance(s, "eio", 1, 10)
	if !eio && Chance(s, "nofinalnl", 1, 4) {
		// (with an injected read error the input stays newline-terminated: what
		// happens to a partial line cut off by an error is not specified)
		stdin = strings.TrimSuffix(stdin, "\n")
	}
	base := replCfg(stdin)
	tty := drawTTY(s)
	base.TTY = tty
	var cfgs []sim.Config
	var roles []string
	m := s.Int("ndeliv", 1, 3)
	for i := 0; i < m; i++ {
		c, d := drawDelivery(s, base)
		cfgs = append(cfgs, c)
		roles = append(roles, d)
	}
	cs := c20Case(pool, cfgs, roles, "rnd")
	hasValid := false
	for _, l := range pool {
		if strings.HasPrefix(l.name, "valid") {
			hasValid = true
		}
	}
	for i := range cs.Runs {
		cs.Runs[i].Cfg.TTY = tty // the fresh sessions see the same kind of streams
		if hasValid && cs.Runs[i].Cfg.Budget < 30000000 {
			// a valid-by-construction program may nest counted loops and calls a few levels deep
			cs.Runs[i].Cfg.Budget = 30000000
		}
	}
	if eio {
		// EIO at the start of line k's text: responses before k are judged
		k := s.Int("eioline", 1, n)
		off := 0
		for i := 0; i < k && i < n; i++ {
			off += len(ls[i]) + 1 + len(c20Marker(i)) + 1
		}
		if off > len(stdin) {
			off = len(stdin)
		}
		c := cs.Runs[0].Cfg
		c.StdinErrAt = off
		c.StdinErrSticky = true
		cs.Runs[0].Cfg = c
		cs.Runs[0].Role += "+eio"
		// only one session run in this configuration
		fresh := cs.Runs[cs.Aux.C20.Sessions:]
		cs.Runs = append([]Run{cs.Runs[0]}, fresh...)
		d := cs.Aux.C20.Sessions - 1
		for i := range cs.Aux.C20.FreshOf {
			cs.Aux.C20.FreshOf[i] -= d
		}
		cs.Aux.C20.Sessions = 1
		cs.Aux.C20.JudgeUpTo = k
		cs.RelaxedFault = "eio"
	}
	return cs
}

// ---------------------------------------------------------------- segments

type c20Seg struct {
	Out, Err, Order string
}

// c20Split cuts a session history at the markers. ok[i] is false if marker i
// never appeared.
func c20Split(r sim.Result, n int) (segs []c20Seg, found []bool, tail c20Seg) {
	type chunk struct {
		kind string
		data string
		off  int // stdout offset at which it was written
	}
	var chunks []chunk
	var so strings.Builder
	for _, e := range r.Events {
		if e.Kind == "OUT" || e.Kind == "ERR" {
			chunks = append(chunks, chunk{e.Kind, e.Data, so.Len()})
			if e.Kind == "OUT" {
				so.WriteString(e.Data)
			}
		}
	}
	stdout := so.String()
	segs = make([]c20Seg, n)
	found = make([]bool, n)
	pos := 0
	collect := func(from, to int) c20Seg {
		var sg c20Seg
		sg.Out = stdout[from:to]
		var order strings.Builder
		last := ""
		for _, c := range chunks {
			switch c.kind {
			case "ERR":
				if c.off >= from && c.off <= to {
					sg.Err += c.data
					if last != "E" {
						order.WriteByte('E')
						last = "E"
					}
				}
			case "OUT":
				// the part of this chunk that falls inside [from,to)
				a, b := c.off, c.off+len(c.data)
				if a < from {
					a = from
				}
				if b > to {
					b = to
				}
				if a < b && last != "O" {
					order.WriteByte('O')
					last = "O"
				}
			}
		}
		sg.Order = order.String()
		return sg
	}
	for i := 0; i < n; i++ {
		m := fmt.Sprintf("#%d#\n", i)
		j := strings.Index(stdout[pos:], m)
		if j < 0 {
			break
		}
		found[i] = true
		segs[i] = collect(pos, pos+j)
		pos = pos + j + len(m)
	}
	tail = collect(pos, len(stdout))
	return
}

func init() {
	register(&Property{
		ID:          "C20",
		Level:       "exploration",
		Systematic:  c20Systematic,
		Random:      c20Random,
		RandomCount: func(tier string) int { return map[string]int{"quick": 2500, "thorough": 200000}[tier] },
		Eval:        c20Eval,
		Rule: "sessions = every pool line alone, every ordered pair of the " + fmt.Sprint(len(c20Pool)) + " pool lines (valid statements, bare expressions, silent statements, lexical / syntax / runtime errors incl. errors inside loops, blocks and functions on one line), swept completely; every failing line 4 and 40 times followed by probe lines; every confirmed built-in misuse and a fifth of the operator misuses as lines; resource-exhausting lines in processes of their own; two 1500-line marathons over the whole pool; plus seeded random sessions of 2..60 lines (a quarter of the lines drawn from the grammar) under 1..3 stdin delivery schedules, some with EIO injected mid-session. Response i = stdout+stderr between marker lines; oracle = the same line's response as first line of a fresh session. " +
			"distinct_nontrivial counts distinct sequences of line classes among sessions that contain at least one failing line followed by at least one judged line.",
		DistinctSet: "c20_class_sequences",
		Assumptions: []string{
			"pool lines use only literals and built-ins (no ইনপুট, no ক্লক), so a fresh-session run of the same line is the property's own oracle",
			"marker lines (দেখাও \"#i#\";) are themselves REPL lines; a missing marker is reported as a suppressed later response",
			"the prompt text is not assumed: responses are cut at markers, not at prompts",
		},
		Components: map[string]string{
			"runPrompt / run (read-eval loop, flag resets), lexer, parser, interpreter": "real code (instrumented copy)",
			"stdin (with delivery schedule and EIO), stdout, stderr, exit":              "stub (verifsimrt)",
		},
		ReachTargets: []string{"reach.failing_line_followed_by_judged_line", "fault.stdin_eio", "reach.read_returned_more_than_one_line", "reach.read_ended_inside_line"},
	})
}

func c20Eval(cs *Case, ctx *EvalCtx) []Violation {
	obs := ctx.RunAll(cs)
	ax := cs.Aux.C20
	var vs []Violation
	add := func(run int, class, sig, msg string) {
		vs = append(vs, Violation{Prop: "C20", Class: "C20/" + class, Sig: sig, Msg: msg, Run: run})
	}
	if cs.Kind == "survive" {
		o := obs[0]
		_, found, _ := c20Split(o.Res, 2)
		switch {
		case o.Res.Panic != "":
			add(0, "session-ended", cs.Sig, fmt.Sprintf("line %q killed the interpreter: %s", clip(ax.Lines[0]), o.Res.Panic))
		case o.Res.Budget:
			add(0, "never-returns", cs.Sig, "step budget exceeded")
		case !found[0] || !found[1]:
			add(0, "session-ended", cs.Sig, fmt.Sprintf("after line %q the later lines got no response (stdout=%q)", clip(ax.Lines[0]), clip(o.Stdout)))
		case !strings.Contains(o.Stdout, "3\n"):
			add(0, "response-differs", cs.Sig, fmt.Sprintf("the line after it must answer 3: stdout=%q", clip(o.Stdout)))
		case o.ExitStatus() != 0:
			add(0, "exit-status", cs.Sig, fmt.Sprintf("end of input must end the session with status 0, got %d", o.ExitStatus()))
		}
		if ctx.Stats != nil {
			ctx.Stats.Count("reach.resource_exhausting_line", 1)
		}
		return vs
	}
	if cs.Kind == "eof" {
		o := obs[0]
		switch {
		case o.Res.Panic != "":
			add(0, "session-ended", cs.Sig, "panic: "+o.Res.Panic)
		case o.Res.Budget:
			add(0, "never-returns", cs.Sig, "step budget exceeded")
		case o.ExitStatus() != 0:
			add(0, "exit-status", cs.Sig, fmt.Sprintf("end of input must end the session with status 0, got %d", o.ExitStatus()))
		}
		return vs
	}
	if ax.Echo {
		for i, o := range obs {
			if o.Res.Panic != "" || o.Res.Budget {
				add(i, "session-ended", cs.Sig, "panic or budget: "+o.Res.Panic)
				return vs
			}
		}
		sa, fa := c20FreshSeg(obs[0].Res)
		sb, fb := c20FreshSeg(obs[1].Res)
		if !fa || !fb {
			add(-1, "session-ended", cs.Sig, "marker missing in an echo session")
		} else if sa.Out != sb.Out || sa.Err != "" || sb.Err != "" {
			add(-1, "echo", cs.Sig, fmt.Sprintf("bare expression answered %q (stderr %q), দেখাও answered %q (stderr %q)", sa.Out, sa.Err, sb.Out, sb.Err))
		}
		if ctx.Stats != nil {
			ctx.Stats.Count("echo_cases", 1)
		}
		return vs
	}

	n := len(ax.Lines)
	// fresh-session responses
	fresh := make([]c20Seg, n)
	freshOK := make([]bool, n)
	for i := 0; i < n; i++ {
		o := obs[ax.FreshOf[i]]
		sig := "line:" + ax.Names[i]
		if o.Res.Panic != "" {
			add(ax.FreshOf[i], "session-ended", "by:"+ax.Names[i], fmt.Sprintf("line %q ended a fresh session with a panic: %s", clip(ax.Lines[i]), o.Res.Panic))
			continue
		}
		if o.Res.Budget {
			add(ax.FreshOf[i], "never-returns", "by:"+ax.Names[i], fmt.Sprintf("line %q never returns (step budget exceeded)", clip(ax.Lines[i])))
			continue
		}
		sg0, f0 := c20FreshSeg(o.Res)
		sg, f := []c20Seg{sg0}, []bool{f0}
		if !f[0] {
			add(ax.FreshOf[i], "session-ended", "by:"+ax.Names[i], fmt.Sprintf("after line %q the next line got no response (exit=%d returned=%v)", clip(ax.Lines[i]), o.Res.Exit, o.Res.Returned))
			continue
		}
		if o.ExitStatus() != 0 {
			add(ax.FreshOf[i], "exit-status", sig, fmt.Sprintf("end of input must end the session with status 0: exit=%d", o.Res.Exit))
		}
		fresh[i] = sg[0]
		freshOK[i] = true
		// what the line prints by construction belongs to ITS response: it must be on stdout
		// before the marker line's output (when an implementation reads its input — line by
		// line, ahead of time, all at once — is its own business)
		if want, ok := c20Known[ax.Names[i]]; ok && want != "" {
			if !strings.Contains(sg0.Out, want) {
				add(ax.FreshOf[i], "response-late", "line:"+ax.Names[i], fmt.Sprintf("line %q must print %q as part of its own response; its response was %q", clip(ax.Lines[i]), clip(want), clip(sg0.Out)))
			} else if sg0.Err != "" {
				// ... and what a line printed before it failed comes before its diagnostic, not
				// after it together with the next line's output
				var so strings.Builder
				warm, errAt := -1, -1
				for _, e := range o.Res.Events {
					if e.Kind == "OUT" {
						so.WriteString(e.Data)
						if warm < 0 {
							if k := strings.Index(so.String(), "#W#\n"); k >= 0 {
								warm = k + 4
							}
						}
					} else if e.Kind == "ERR" && warm >= 0 && errAt < 0 {
						errAt = so.Len()
					}
				}
				if warm >= 0 && errAt >= 0 {
					if k := strings.Index(so.String()[warm:], want); k < 0 || warm+k+len(want) > errAt {
						add(ax.FreshOf[i], "response-late", "line:"+ax.Names[i], fmt.Sprintf("line %q prints %q and then fails: the text must be written before the diagnostic, but stdout stood at %q when the diagnostic was written", clip(ax.Lines[i]), clip(want), clip(so.String()[warm:errAt])))
					}
				}
			}
		}
	}
	// the session under each delivery
	var firstSegs []c20Seg
	for r := 0; r < ax.Sessions; r++ {
		o := obs[r]
		role := cs.Runs[r].Role
		limit := n
		if ax.JudgeUpTo > 0 && ax.JudgeUpTo < limit {
			limit = ax.JudgeUpTo
		}
		segs, found, _ := c20Split(o.Res, n)
		for i := 0; i < limit; i++ {
			prev := "start"
			if i > 0 {
				prev = ax.Names[i-1]
			}
			if !found[i] {
				if !freshOK[i] {
					break // already reported against the line itself
				}
				culprit := ax.Names[i]
				what := "session ended or response suppressed"
				if o.Res.Panic != "" {
					what = "panic: " + o.Res.Panic
				} else if o.Res.Budget {
					what = "step budget exceeded"
				}
				add(r, "session-ended", "by:"+culprit, fmt.Sprintf("[%s] no response to the line after %q (line %d of the session): %s", role, ax.Lines[i], i, what))
				break
			}
			if !freshOK[i] {
				continue
			}
			same := segs[i] == fresh[i]
			if i == 0 && !same {
				// the first response of a session may be preceded by start-up output
				same = segs[i].Err == fresh[i].Err && strings.HasSuffix(segs[i].Out, fresh[i].Out)
			}
			if !same {
				add(r, "response-differs", fmt.Sprintf("line:%s after:%s", ax.Names[i], prev),
					fmt.Sprintf("[%s] line %d %q answered stdout=%q stderr=%q order=%s; as first line of a fresh session it answers stdout=%q stderr=%q order=%s", role, i, ax.Lines[i], segs[i].Out, segs[i].Err, segs[i].Order, fresh[i].Out, fresh[i].Err, fresh[i].Order))
				break
			}
		}
		if ax.JudgeUpTo == 0 && o.Res.Panic == "" && !o.Res.Budget && o.ExitStatus() != 0 {
			add(r, "exit-status", cs.Sig, fmt.Sprintf("[%s] end of input must end the session with status 0: exit=%d", role, o.Res.Exit))
		}
		if r == 0 {
			firstSegs = segs
		} else if ax.JudgeUpTo == 0 {
			for i := 0; i < n; i++ {
				if segs[i] != firstSegs[i] {
					add(-1, "delivery-dependent", "line:"+ax.Names[i], fmt.Sprintf("line %d %q answers differently under delivery %s and %s", i, ax.Lines[i], cs.Runs[0].Role, role))
					break
				}
			}
		}
	}
	if ctx.Stats != nil {
		st := ctx.Stats
		failing := false
		nontrivial := false
		for i, c := range ax.Classes {
			if failing && (ax.JudgeUpTo == 0 || i < ax.JudgeUpTo) {
				nontrivial = true
			}
			if strings.HasPrefix(c, "lex") || strings.HasPrefix(c, "syn") || strings.HasPrefix(c, "rt") {
				failing = true
			}
			if i > 0 {
				st.Seen("c20_class_pairs", ax.Classes[i-1]+">"+c)
				st.Seen("c20_line_pairs", ax.Names[i-1]+">"+ax.Names[i])
			}
		}
		if nontrivial {
			st.Seen("c20_class_sequences", cs.Sig)
			st.Count("reach.failing_line_followed_by_judged_line", 1)
		}
		st.Count("session_lines", int64(n))
	}
	return vs
}

func clip(s string) string {
	if len(s) > 160 {
		return s[:80] + "..." + s[len(s)-60:]
	}
	return s
}
