package main

import (
	"fmt"
	"sort"
	"strconv"
	"strings"

	"golang.org/x/text/unicode/norm"

	sim "github.com/ah-naf/borno/verifsimrt"
)

// C12 — objects are shared key->value maps with consistent read, write,
// delete and listing. The schedule is the order in which every dynamic
// `range` over a Go map visits its keys.

type C12Val struct {
	Num  int    `json:"num,omitempty"`
	Ref  int    `json:"ref,omitempty"`  // >0: an object
	Text string `json:"text,omitempty"` // non-numeric scalar: what printing it shows (nil, true, false, a string)
	Empty bool  `json:"empty,omitempty"` // the empty string
	ArrRef int  `json:"arr_ref,omitempty"` // >0: an array whose first element is that object
	ArrNum int  `json:"arr_num,omitempty"` // ... and whose second element is this number
}

type C12Block struct {
	Step  int               `json:"step"`
	Var   string            `json:"var"`
	Op    string            `json:"op"`
	Model map[string]C12Val `json:"model"`
	// Deep[k] = the properties of the object that property k refers to
	Deep map[string]map[string]C12Val `json:"deep,omitempty"`
	// Tokens[k] = how many times "k:" must at least appear when the whole object is printed
	Tokens map[string]int `json:"tokens,omitempty"`
	// Nums: every number stored anywhere in the object (nested objects and arrays included): each
	// must be visible when the whole object is printed. Stale: numbers that were stored in it
	// earlier and are not any more: none may still be visible.
	Nums  []int `json:"nums,omitempty"`
	Stale []int `json:"stale,omitempty"`
	// Kind "reprint": the object is printed, mutated by one operation (Op), and printed again,
	// with nothing else printed in between. Nums describe the first print, After the second.
	Kind  string `json:"kind,omitempty"`
	After []int  `json:"after,omitempty"`
}

type C12Expect struct {
	Blocks   []C12Block `json:"blocks"`
	MustFail string     `json:"must_fail,omitempty"` // name of the terminal failing op, "" if none
	FailLine int        `json:"fail_line,omitempty"`
	Ops      []string   `json:"ops"`
	ReplLine string     `json:"repl_line,omitempty"` // the same program as one interactive line
}

// key pool: Latin, Bangla, two names that differ only in letter case, and one
// containing U+09DF (a letter whose NFC form is its decomposition)
var c12Keys = []string{"alpha", "beta", "gamma", "delta", "\u0995", "\u09a8\u09be\u09ae", "ID", "id", "\u09ac\u09df\u09b8", FnLen,
	"d1", "d\u09e7", // the same name with an ASCII and a Bangla digit: two different properties
	"k2", "k10", "\u09a7\u09be\u09aa\u09e8", "\u09a7\u09be\u09aa\u09e7\u09e6"} // ... k2/k10 and ধাপ২/ধাপ১০: same stem, numeric suffixes of different length

type c12Gen struct {
	s      Src
	lines  []string
	heap   map[int]map[string]C12Val
	nextID int
	vars   map[string]int // variable -> object id
	order  []string       // declaration order of variables
	arrays map[string][]int
	nval   int
	step   int
	blocks []C12Block
	ops    []string
	tmp    int
	seenNums map[int]map[int]bool // object id -> numbers that were ever stored in it (directly or nested)
}

func (g *c12Gen) add(s string) int { g.lines = append(g.lines, s); return len(g.lines) }

// replLine renders the whole program as ONE interactive line. Expression statements
// would be echoed at the prompt, so each is wrapped into a declaration (same effect,
// no echo); comments are dropped.
func (g *c12Gen) replLine() string {
	var parts []string
	n := 0
	for _, l := range g.lines {
		t := strings.TrimSpace(l)
		switch {
		case t == "" || strings.HasPrefix(t, "//"):
			continue
		case strings.HasPrefix(t, KwVar+" "), strings.HasPrefix(t, KwPrint+" "), strings.HasPrefix(t, KwFun+" "), strings.HasPrefix(t, KwFor+" "):
			parts = append(parts, t)
		default:
			n++
			parts = append(parts, fmt.Sprintf("%s rw%d = (%s);", KwVar, n, strings.TrimSuffix(t, ";")))
		}
	}
	return strings.Join(parts, " ")
}
// val: a fresh number. They start above every code point used in the programs' strings (the
// tree prints a string stored in an object as its code points), so that a number can be told
// from anything else in a printed object.
func (g *c12Gen) val() int { g.nval++; return 3000 + g.nval }

// value draws a property value: mostly a unique number, sometimes nil (literal
// or from a function that returns nothing), a boolean or a unique string.
func (g *c12Gen) value() (string, C12Val) { return g.valueFor(0) }

// valueFor draws a value to store into object target (0 = a new object): a
// reference to an existing object is allowed when it cannot create a cycle.
func (g *c12Gen) valueFor(target int) (string, C12Val) {
	k := g.s.Int("valkind", 0, 17)
	switch k {
	case 12:
		return "0", C12Val{Text: "0"}
	case 13:
		return "\"\"", C12Val{Empty: true}
	case 14:
		return "wr1", C12Val{Text: "<function wr1>"}
	case 15:
		return "[1, 2]", C12Val{Text: "[1 2]"}
	case 16:
		g.nval++
		t := fmt.Sprintf("%d%%d off %%s %%", g.nval)
		return "\"" + t + "\"", C12Val{Text: t}
	case 17:
		// integers from the bitwise operators, beyond what a double holds exactly
		bi := g.s.Int("bigint", 0, 2)
		return []string{"((1 << 60) | 1)", "(~0)", "((1 << 53) | 1)"}[bi], C12Val{Text: []string{"1152921504606846977", "-1", "9007199254740993"}[bi]}
	}
	if k >= 10 {
		if len(g.order) > 0 {
			v := g.pickVar("refvar")
			id := g.vars[v]
			if target == 0 || !g.reaches(id, target) {
				return v, C12Val{Ref: id}
			}
		}
		k = 5
	}
	switch k {
	case 0:
		return "nil", C12Val{Text: "nil"}
	case 1:
		return "noret()", C12Val{Text: "nil"}
	case 2:
		if Bool(g.s, "boolv") {
			return KwTrue, C12Val{Text: "true"}
		}
		return KwFalse, C12Val{Text: "false"}
	case 3:
		g.nval++
		t := fmt.Sprintf("s%d", g.nval)
		return "\"" + t + "\"", C12Val{Text: t}
	default:
		v := g.val()
		return fmt.Sprint(v), C12Val{Num: v}
	}
}

func (g *c12Gen) newObj(m map[string]C12Val) int {
	g.nextID++
	g.heap[g.nextID] = m
	return g.nextID
}

func (g *c12Gen) reaches(from, to int) bool {
	seen := map[int]bool{}
	var dfs func(int) bool
	dfs = func(x int) bool {
		if x == to {
			return true
		}
		if seen[x] {
			return false
		}
		seen[x] = true
		for _, v := range g.heap[x] {
			if v.Ref > 0 && dfs(v.Ref) {
				return true
			}
			if v.ArrRef > 0 && dfs(v.ArrRef) {
				return true
			}
		}
		return false
	}
	return dfs(from)
}

func (g *c12Gen) literal(nkeys int) (string, map[string]C12Val) {
	perm := append([]string(nil), c12Keys...)
	// draw a subset in a drawn order (source order of a literal is arbitrary)
	for i := 0; i < nkeys; i++ {
		j := i + g.s.Int("keypick", 0, len(perm)-1-i)
		perm[i], perm[j] = perm[j], perm[i]
	}
	m := map[string]C12Val{}
	var parts []string
	for _, k := range perm[:nkeys] {
		txt, v := g.value()
		m[k] = v
		parts = append(parts, fmt.Sprintf("%s: %s", k, txt))
	}
	return "{" + strings.Join(parts, ", ") + "}", m
}

func (g *c12Gen) setVar(name string, id int, rhs string) {
	if _, ok := g.vars[name]; ok {
		g.add(fmt.Sprintf("%s = %s;", name, rhs))
	} else {
		g.add(fmt.Sprintf("%s %s = %s;", KwVar, name, rhs))
		g.order = append(g.order, name)
	}
	g.vars[name] = id
}

func (g *c12Gen) copyModel(id int) map[string]C12Val {
	m := map[string]C12Val{}
	for k, v := range g.heap[id] {
		m[k] = v
	}
	return m
}

// observe prints, for every live variable, the listing, the by-name reads and
// the whole object, in a positional block format.
func (g *c12Gen) observe(op string) {
	for _, v := range g.order {
		id := g.vars[v]
		g.tmp++
		t := g.tmp
		g.add(fmt.Sprintf("%s \"@B %d %s\";", KwPrint, g.step, v))
		g.add(fmt.Sprintf("%s ks%d = %s(%s);", KwVar, t, FnKeys, v))
		g.add(fmt.Sprintf("%s vs%d = %s(%s);", KwVar, t, FnValues, v))
		g.add(fmt.Sprintf("%s %s(ks%d);", KwPrint, FnLen, t))
		g.add(fmt.Sprintf("%s %s(vs%d);", KwPrint, FnLen, t))
		// the loop bound is the model's size (a short listing then fails with an index error, a long one shows in the printed lengths)
		g.add(fmt.Sprintf("%s (%s i%d = 0; i%d < %d; i%d = i%d + 1) { %s ks%d[i%d]; %s vs%d[i%d]; }", KwFor, KwVar, t, t, len(g.heap[id]), t, t, KwPrint, t, t, KwPrint, t, t))
		g.add(fmt.Sprintf("%s \"@N\";", KwPrint))
		keys := sortedKeys(g.heap[id])
		deep := map[string]map[string]C12Val{}
		for _, k := range keys {
			g.add(fmt.Sprintf("%s %s.%s;", KwPrint, v, k))
			if r := g.heap[id][k].Ref; r > 0 {
				// read every scalar property of the referenced object through this path
				deep[k] = g.copyModel(r)
				for _, ck := range sortedKeys(g.heap[r]) {
					if g.heap[r][ck].Ref == 0 {
						g.add(fmt.Sprintf("%s %s.%s.%s;", KwPrint, v, k, ck))
					}
				}
			}
		}
		tokens := map[string]int{}
		var count func(x int)
		count = func(x int) {
			for k, val := range g.heap[x] {
				tokens[k]++
				if val.Ref > 0 {
					count(val.Ref)
				}
				if val.ArrRef > 0 {
					count(val.ArrRef)
				}
			}
		}
		count(id)
		g.add(fmt.Sprintf("%s \"@P\";", KwPrint))
		g.add(fmt.Sprintf("%s %s;", KwPrint, v))
		g.add(fmt.Sprintf("%s \"@E\";", KwPrint))
		nums, texts := g.reachNums(id)
		g.blocks = append(g.blocks, C12Block{Step: g.step, Var: v, Op: op, Model: g.copyModel(id), Deep: deep, Tokens: tokens, Nums: nums, Stale: g.staleNums(id, nums, texts)})
	}
}

// reachNums returns the numbers stored anywhere below object id, and the concatenation of every
// key and non-numeric text below it (a number that also occurs inside one of those is not
// a usable token).
func (g *c12Gen) reachNums(id int) ([]int, string) {
	set := map[int]bool{}
	var texts strings.Builder
	seen := map[int]bool{}
	var walk func(x int)
	walk = func(x int) {
		if seen[x] {
			return
		}
		seen[x] = true
		for _, k := range sortedKeys(g.heap[x]) {
			v := g.heap[x][k]
			texts.WriteString(k + " ")
			if v.Ref > 0 {
				walk(v.Ref)
			} else if v.ArrRef > 0 {
				walk(v.ArrRef)
				if v.ArrNum > 0 {
					set[v.ArrNum] = true
				}
			} else if v.Text != "" {
				texts.WriteString(v.Text + " ")
			} else if !v.Empty && v.Num > 0 {
				set[v.Num] = true
			}
		}
	}
	walk(id)
	var out []int
	for n := range set {
		out = append(out, n)
	}
	sort.Ints(out)
	return out, texts.String()
}

// staleNums: numbers that were below object id at an earlier observation and are not now
func (g *c12Gen) staleNums(id int, cur []int, texts string) []int {
	if g.seenNums == nil {
		g.seenNums = map[int]map[int]bool{}
	}
	if g.seenNums[id] == nil {
		g.seenNums[id] = map[int]bool{}
	}
	now := map[int]bool{}
	for _, n := range cur {
		now[n] = true
	}
	var stale []int
	for n := range g.seenNums[id] {
		if n > 3000 && !now[n] && !strings.Contains(texts, strconv.Itoa(n)) {
			stale = append(stale, n)
		}
	}
	sort.Ints(stale)
	for _, n := range cur {
		g.seenNums[id][n] = true
	}
	return stale
}

func sortedKeys(m map[string]C12Val) []string {
	ks := make([]string, 0, len(m))
	for k := range m {
		ks = append(ks, k)
	}
	sort.Strings(ks)
	return ks
}

func (g *c12Gen) pickVar(label string) string { return Pick(g.s, label, g.order) }

// path returns an expression denoting the object of variable v, possibly
// through an alias path (array element, child property) when available.
func (g *c12Gen) prelude() {
	g.add(fmt.Sprintf("%s wr1(o, v) { o.alpha = v; }", KwFun))
	g.add(fmt.Sprintf("%s wr2(o, v) { o.delta = v; %s o; }", KwFun, KwReturn))
	g.add(fmt.Sprintf("%s mk() { %s {alpha: 1, beta: 2, gamma: 3}; }", KwFun, KwReturn))
	g.add(fmt.Sprintf("%s mkn() { %s {alpha: 1, child: {beta: 2, gamma: 3}, arr: [{delta: 4}, 5]}; }", KwFun, KwReturn))
	g.add(fmt.Sprintf("%s mkc() { %s {alpha: 1, child: {beta: 2, gamma: {delta: 4}}}; }", KwFun, KwReturn))
	g.add(fmt.Sprintf("%s del(o, k) { %s(o, k); }", KwFun, FnDelete))
	g.add(fmt.Sprintf("%s noret() { }", KwFun))
}

func c12Program(s Src, maxOps int) (string, *C12Expect) {
	g := &c12Gen{s: s, heap: map[int]map[string]C12Val{}, vars: map[string]int{}, arrays: map[string][]int{}}
	g.prelude()
	varNames := []string{"o1", "o2", "o3"}
	// first op is always a literal
	nops := s.Int("nops", 1, maxOps)
	mustFail := ""
	failLine := 0
	for g.step = 1; g.step <= nops; g.step++ {
		// several mutations may happen between two observations: an observation
		// (listing, reading, printing) is itself an operation that can refresh
		// state inside the implementation
		nmut := 1
		if len(g.order) > 0 {
			nmut = s.Int("nmut", 1, 3)
		}
		var stepOps []string
		for mi := 0; mi < nmut; mi++ {
			kind := "literal"
			if len(g.order) > 0 {
				kind = Pick(s, "op", []string{"literal", "literal", "alias", "write-new", "write-existing", "write-existing", "delete", "delete", "fn-write", "fn-write-ret", "array-alias", "child", "child2", "child-write", "arr-prop", "arr-prop-write", "write-negzero", "write-rebinding", "chain-write", "stateful-call-write", "mk-twice", "fn-delete", "empty-literal", "read", "rewrite-literal", "mk-nested-twice", "mk-nested-twice", "arr-elem-write", "reprint", "reprint"})
			}
			opName := kind
			switch kind {
			case "literal", "empty-literal", "rewrite-literal":
				n := s.Int("nkeys", 0, 6)
				if kind == "empty-literal" {
					n = 0
				}
				txt, m := g.literal(n)
				id := g.newObj(m)
				name := Pick(s, "var", varNames)
				g.setVar(name, id, txt)
			case "alias":
				src := g.pickVar("src")
				dst := Pick(s, "var", varNames)
				if dst == src {
					g.add(fmt.Sprintf("%s = %s;", dst, src))
				} else {
					g.setVar(dst, g.vars[src], src)
				}
			case "write-new", "write-existing":
				v := g.pickVar("target")
				id := g.vars[v]
				var k string
				ks := sortedKeys(g.heap[id])
				if kind == "write-existing" && len(ks) > 0 {
					k = Pick(s, "key", ks)
				} else {
					k = Pick(s, "key", c12Keys)
				}
				txt, val := g.valueFor(id)
				g.add(fmt.Sprintf("%s.%s = %s;", v, k, txt))
				g.heap[id][k] = val
			case "delete", "fn-delete":
				v := g.pickVar("target")
				id := g.vars[v]
				ks := sortedKeys(g.heap[id])
				if len(ks) == 0 {
					opName = "noop"
					g.add("// nothing to delete")
					break
				}
				k := Pick(s, "key", ks)
				if kind == "delete" {
					g.add(fmt.Sprintf("%s(%s, \"%s\");", FnDelete, v, k))
				} else {
					g.add(fmt.Sprintf("del(%s, \"%s\");", v, k))
				}
				delete(g.heap[id], k)
			case "fn-write":
				v := g.pickVar("target")
				txt, val := g.valueFor(g.vars[v])
				g.add(fmt.Sprintf("wr1(%s, %s);", v, txt))
				g.heap[g.vars[v]]["alpha"] = val
			case "fn-write-ret":
				v := g.pickVar("target")
				dst := Pick(s, "var", varNames)
				val := g.val()
				id := g.vars[v]
				g.heap[id]["delta"] = C12Val{Num: val}
				if dst == v {
					g.add(fmt.Sprintf("%s = wr2(%s, %d);", dst, v, val))
				} else {
					g.setVar(dst, id, fmt.Sprintf("wr2(%s, %d)", v, val))
				}
			case "array-alias":
				a, b := g.pickVar("a"), g.pickVar("b")
				g.tmp++
				arr := fmt.Sprintf("arr%d", g.tmp)
				g.add(fmt.Sprintf("%s %s = [%s, %s];", KwVar, arr, a, b))
				idx := s.Int("idx", 0, 1)
				tgt := []string{a, b}[idx]
				k := Pick(s, "key", c12Keys)
				val := g.val()
				g.add(fmt.Sprintf("%s[%d].%s = %d;", arr, idx, k, val))
				g.heap[g.vars[tgt]][k] = C12Val{Num: val}
			case "child", "child2":
				p, c := g.pickVar("parent"), g.pickVar("childv")
				pid, cid := g.vars[p], g.vars[c]
				if g.reaches(cid, pid) {
					opName = "noop"
					g.add("// would create a cycle")
					break
				}
				g.add(fmt.Sprintf("%s.%s = %s;", p, kind, c))
				g.heap[pid][kind] = C12Val{Ref: cid}
			case "child-write":
				// write through a child reference if some object has one
				var cands []string
				for _, v := range g.order {
					for _, ck := range sortedKeys(g.heap[g.vars[v]]) {
						if g.heap[g.vars[v]][ck].Ref > 0 {
							cands = append(cands, v+"."+ck)
						}
					}
				}
				if len(cands) == 0 {
					opName = "noop"
					g.add("// no child to write through")
					break
				}
				p := Pick(s, "parent", cands)
				dot := strings.Index(p, ".")
				cid := g.heap[g.vars[p[:dot]]][p[dot+1:]].Ref
				k := Pick(s, "key", c12Keys)
				val := g.val()
				g.add(fmt.Sprintf("%s.%s = %d;", p, k, val))
				g.heap[cid][k] = C12Val{Num: val}
			case "write-negzero":
				// 0 then -0 into the same property: equal under ==, different values
				v := g.pickVar("target")
				k := Pick(s, "key", c12Keys)
				first, second := "0", "-0"
				if Bool(s, "negfirst") {
					first, second = "-0", "0"
				}
				g.add(fmt.Sprintf("%s.%s = %s;", v, k, first))
				g.add(fmt.Sprintf("%s.%s = %s;", v, k, second))
				g.heap[g.vars[v]][k] = C12Val{Text: second}
			case "write-rebinding":
				// a.k = (a = b): the object is looked up before the right-hand side rebinds a
				a, b := g.pickVar("a"), g.pickVar("b")
				ida, idb := g.vars[a], g.vars[b]
				if a == b || ida == idb || g.reaches(idb, ida) {
					opName = "noop"
					g.add("// nothing to rebind")
					break
				}
				g.tmp++
				al := fmt.Sprintf("al%d", g.tmp)
				g.add(fmt.Sprintf("%s %s = %s;", KwVar, al, a))
				g.order = append(g.order, al)
				g.vars[al] = ida
				k := Pick(s, "key", c12Keys)
				g.add(fmt.Sprintf("%s.%s = (%s = %s);", a, k, a, b))
				g.heap[ida][k] = C12Val{Ref: idb}
				g.vars[a] = idb
			case "stateful-call-write":
				// nx().k1 = nx().k2 + 1 where every call of nx() returns the NEXT object:
				// the object expression and the value expression are evaluated separately, in that order
				a, b := g.pickVar("a"), g.pickVar("b")
				ida, idb := g.vars[a], g.vars[b]
				g.tmp++
				t := g.tmp
				src := g.val()
				k1, k2 := Pick(s, "key", c12Keys), Pick(s, "key2", c12Keys)
				g.add(fmt.Sprintf("%s.%s = %d;", b, k2, src))
				g.heap[idb][k2] = C12Val{Num: src}
				g.add(fmt.Sprintf("%s st%d = [%s, %s];", KwVar, t, a, b))
				g.add(fmt.Sprintf("%s si%d = 0;", KwVar, t))
				g.add(fmt.Sprintf("%s nx%d() { si%d = si%d + 1; %s st%d[si%d - 1]; }", KwFun, t, t, t, KwReturn, t, t))
				g.add(fmt.Sprintf("nx%d().%s = nx%d().%s + 1;", t, k1, t, k2))
				g.nval += 2
				g.heap[ida][k1] = C12Val{Num: src + 1}
			case "chain-write":
				// a.k1 = b.k2 = v: both properties receive the value
				a, b := g.pickVar("a"), g.pickVar("b")
				k1, k2 := Pick(s, "key", c12Keys), Pick(s, "key2", c12Keys)
				val := g.val()
				g.tmp++
				g.add(fmt.Sprintf("%s ch%d = (%s.%s = %s.%s = %d);", KwVar, g.tmp, a, k1, b, k2, val))
				g.heap[g.vars[b]][k2] = C12Val{Num: val}
				g.heap[g.vars[a]][k1] = C12Val{Num: val}
			case "arr-prop":
				p, c := g.pickVar("parent"), g.pickVar("childv")
				pid, cid := g.vars[p], g.vars[c]
				if g.reaches(cid, pid) {
					opName = "noop"
					g.add("// would create a cycle")
					break
				}
				an := g.val()
				g.add(fmt.Sprintf("%s.arr = [%s, %d];", p, c, an))
				g.heap[pid]["arr"] = C12Val{ArrRef: cid, ArrNum: an}
			case "arr-prop-write":
				var cands []string
				for _, v := range g.order {
					if a, ok := g.heap[g.vars[v]]["arr"]; ok && a.ArrRef > 0 {
						cands = append(cands, v)
					}
				}
				if len(cands) == 0 {
					opName = "noop"
					g.add("// no array property to write through")
					break
				}
				p := Pick(s, "parent", cands)
				cid := g.heap[g.vars[p]]["arr"].ArrRef
				k := Pick(s, "key", c12Keys)
				val := g.val()
				g.add(fmt.Sprintf("%s.arr[0].%s = %d;", p, k, val))
				g.heap[cid][k] = C12Val{Num: val}
			case "mk-twice":
				// the same literal evaluated twice gives independent objects
				a, b := Pick(s, "var", varNames), Pick(s, "var2", varNames)
				ida := g.newObj(map[string]C12Val{"alpha": {Num: 1}, "beta": {Num: 2}, "gamma": {Num: 3}})
				g.setVar(a, ida, "mk()")
				idb := g.newObj(map[string]C12Val{"alpha": {Num: 1}, "beta": {Num: 2}, "gamma": {Num: 3}})
				g.setVar(b, idb, "mk()")
				val := g.val()
				g.add(fmt.Sprintf("%s.beta = %d;", b, val))
				g.heap[g.vars[b]]["beta"] = C12Val{Num: val}
			case "mk-nested-twice":
				// one literal WITH NESTED LITERALS evaluated twice (a factory called twice, or a loop
				// body run twice) gives objects that share nothing
				a, b := Pick(s, "var", varNames), Pick(s, "var2", varNames)
				objectsOnly := Bool(s, "objectsonly") // nothing but object literals and constants, two levels deep
				lit, factory := "{alpha: 1, child: {beta: 2, gamma: 3}, arr: [{delta: 4}, 5]}", "mkn()"
				if objectsOnly {
					lit, factory = "{alpha: 1, child: {beta: 2, gamma: {delta: 4}}}", "mkc()"
				}
				mkOne := func() int {
					d := g.newObj(map[string]C12Val{"delta": {Num: 4}})
					if objectsOnly {
						c := g.newObj(map[string]C12Val{"beta": {Num: 2}, "gamma": {Ref: d}})
						return g.newObj(map[string]C12Val{"alpha": {Num: 1}, "child": {Ref: c}})
					}
					c := g.newObj(map[string]C12Val{"beta": {Num: 2}, "gamma": {Num: 3}})
					return g.newObj(map[string]C12Val{"alpha": {Num: 1}, "child": {Ref: c}, "arr": {ArrRef: d, ArrNum: 5}})
				}
				ida, idb := mkOne(), mkOne()
				if Bool(s, "viafactory") {
					g.setVar(a, ida, factory)
					g.setVar(b, idb, factory)
				} else {
					g.tmp++
					t := g.tmp
					g.add(fmt.Sprintf("%s keep%d = [];", KwVar, t))
					g.add(fmt.Sprintf("%s (%s li%d = 0; li%d < 2; li%d = li%d + 1) { %s kt%d = (keep%d = %s(keep%d, %s)); }", KwFor, KwVar, t, t, t, t, KwVar, t, t, FnAppend, t, lit))
					g.setVar(a, ida, fmt.Sprintf("keep%d[0]", t))
					g.setVar(b, idb, fmt.Sprintf("keep%d[1]", t))
				}
				// (a and b may be the same variable: then only the second object is still held)
				v1, v2, v3 := g.val(), g.val(), g.val()
				g.add(fmt.Sprintf("%s.child.beta = %d;", b, v1))
				g.heap[g.heap[g.vars[b]]["child"].Ref]["beta"] = C12Val{Num: v1}
				if objectsOnly {
					g.add(fmt.Sprintf("%s.child.gamma.delta = %d;", a, v2))
					g.heap[g.heap[g.heap[g.vars[a]]["child"].Ref]["gamma"].Ref]["delta"] = C12Val{Num: v2}
					g.add(fmt.Sprintf("%s.child.gamma.alpha = %d;", b, v3))
					g.heap[g.heap[g.heap[g.vars[b]]["child"].Ref]["gamma"].Ref]["alpha"] = C12Val{Num: v3}
				} else {
					g.add(fmt.Sprintf("%s.arr[0].delta = %d;", a, v2))
					g.heap[g.heap[g.vars[a]]["arr"].ArrRef]["delta"] = C12Val{Num: v2}
					g.add(fmt.Sprintf("%s.arr[1] = %d;", b, v3))
					ar := g.heap[g.vars[b]]["arr"]
					ar.ArrNum = v3
					g.heap[g.vars[b]]["arr"] = ar
				}
			case "arr-elem-write":
				// the second element of an array held in a property is replaced: no property of any object is written
				var cands []string
				for _, v := range g.order {
					if a, ok := g.heap[g.vars[v]]["arr"]; ok && a.ArrRef > 0 {
						cands = append(cands, v)
					}
				}
				if len(cands) == 0 {
					opName = "noop"
					g.add("// no array property to write into")
					break
				}
				p := Pick(s, "parent", cands)
				val := g.val()
				g.add(fmt.Sprintf("%s.arr[1] = %d;", p, val))
				ar := g.heap[g.vars[p]]["arr"]
				ar.ArrNum = val
				g.heap[g.vars[p]]["arr"] = ar
			case "reprint":
				// print, ONE mutation, print again — nothing else printed in between
				v := g.pickVar("target")
				id := g.vars[v]
				before, _ := g.reachNums(id)
				g.add(fmt.Sprintf("%s \"@R %d %s\";", KwPrint, g.step, v))
				g.add(fmt.Sprintf("%s %s;", KwPrint, v))
				mut := "write"
				val := g.val()
				ks := sortedKeys(g.heap[id])
				var viaArr, viaChild []string
				for _, k := range ks {
					if g.heap[id][k].ArrRef > 0 {
						viaArr = append(viaArr, k)
					}
					if g.heap[id][k].Ref > 0 {
						viaChild = append(viaChild, k)
					}
				}
				switch choice := s.Int("remut", 0, 4); {
				case choice == 0 && len(viaArr) > 0:
					k := Pick(s, "key", viaArr)
					mut = "array-element"
					g.add(fmt.Sprintf("%s.%s[1] = %d;", v, k, val))
					ar := g.heap[id][k]
					ar.ArrNum = val
					g.heap[id][k] = ar
				case choice == 1 && len(viaArr) > 0:
					k := Pick(s, "key", viaArr)
					mut = "through-array"
					ck := Pick(s, "key2", c12Keys)
					g.add(fmt.Sprintf("%s.%s[0].%s = %d;", v, k, ck, val))
					g.heap[g.heap[id][k].ArrRef][ck] = C12Val{Num: val}
				case choice == 2 && len(viaChild) > 0:
					k := Pick(s, "key", viaChild)
					mut = "through-child"
					ck := Pick(s, "key2", c12Keys)
					g.add(fmt.Sprintf("%s.%s.%s = %d;", v, k, ck, val))
					g.heap[g.heap[id][k].Ref][ck] = C12Val{Num: val}
				case choice == 3 && len(ks) > 0:
					k := Pick(s, "key", ks)
					mut = "delete"
					g.add(fmt.Sprintf("%s(%s, \"%s\");", FnDelete, v, k))
					delete(g.heap[id], k)
				default:
					k := Pick(s, "key", c12Keys)
					g.add(fmt.Sprintf("%s.%s = %d;", v, k, val))
					g.heap[id][k] = C12Val{Num: val}
				}
				g.add(fmt.Sprintf("%s %s;", KwPrint, v))
				g.add(fmt.Sprintf("%s \"@RE\";", KwPrint))
				after, texts := g.reachNums(id)
				now := map[int]bool{}
				for _, n := range after {
					now[n] = true
				}
				var gone []int
				for _, n := range before {
					if n > 3000 && !now[n] && !strings.Contains(texts, strconv.Itoa(n)) {
						gone = append(gone, n)
					}
				}
				opName = "reprint-" + mut
				g.blocks = append(g.blocks, C12Block{Kind: "reprint", Step: g.step, Var: v, Op: opName, Nums: before, After: after, Stale: gone})
			case "read":
				// read of a present key is part of every observation; here: read through an alias expression
				v := g.pickVar("target")
				g.tmp++
				g.add(fmt.Sprintf("%s rd%d = %s;", KwVar, g.tmp, v))
			}
			g.ops = append(g.ops, opName)
			stepOps = append(stepOps, opName)
		}
		g.observe(strings.Join(stepOps, "+"))
	}
	// optional terminal operation that must fail
	if len(g.order) > 0 && Chance(s, "mustfail", 1, 3) {
		v := g.pickVar("target")
		id := g.vars[v]
		var absent []string
		for _, k := range c12Keys {
			if _, ok := g.heap[id][k]; !ok {
				absent = append(absent, k)
			}
		}
		kind := Pick(s, "failkind", []string{"read-absent", "delete-absent", "dot-on-number", "write-on-number", "read-absent-child", "dot-on-nil", "read-absent-deep", "read-absent-deep", "delete-near-miss", "delete-near-miss", "read-near-miss"})
		// a key that is absent but differs from a present one only in letter case or
		// in the encoding of a letter (canonically equivalent, different code points)
		nearVar, nearKey := "", ""
		for _, nv := range g.order {
			for _, pk := range sortedKeys(g.heap[g.vars[nv]]) {
				cand := ""
				switch {
				case pk == "\u09ac\u09df\u09b8":
					cand = "\u09ac\u09af\u09bc\u09b8" // য় decomposed
				case pk[0] < 0x80:
					cand = strings.ToUpper(pk)
					if cand == pk {
						cand = strings.ToLower(pk)
					}
				}
				if cand != "" && cand != pk {
					if _, present := g.heap[g.vars[nv]][cand]; !present && nearVar == "" {
						nearVar, nearKey = nv, cand
					}
				}
			}
		}
		if (kind == "delete-near-miss" || kind == "read-near-miss") && nearVar == "" {
			kind = "delete-absent"
		}
		var deepVar, deepKey, deepAbsent string
		for _, dv := range g.order {
			for _, dk := range sortedKeys(g.heap[g.vars[dv]]) {
				if r := g.heap[g.vars[dv]][dk].Ref; r > 0 && deepVar == "" {
					for _, k := range c12Keys {
						if _, ok := g.heap[r][k]; !ok {
							deepVar, deepKey, deepAbsent = dv, dk, k
							break
						}
					}
				}
			}
		}
		if kind == "read-absent-deep" && deepVar == "" {
			kind = "read-absent"
		}
		if (kind == "read-absent" || kind == "delete-absent") && len(absent) == 0 {
			kind = "dot-on-number"
		}
		g.add(fmt.Sprintf("%s \"@T\";", KwPrint))
		switch kind {
		case "read-absent":
			failLine = g.add(fmt.Sprintf("%s %s.%s;", KwPrint, v, Pick(s, "key", absent)))
		case "delete-absent":
			failLine = g.add(fmt.Sprintf("%s(%s, \"%s\");", FnDelete, v, Pick(s, "key", absent)))
		case "dot-on-number":
			failLine = g.add(fmt.Sprintf("%s (5).alpha;", KwPrint))
		case "write-on-number":
			g.add(fmt.Sprintf("%s num = 7;", KwVar))
			failLine = g.add("num.alpha = 1;")
		case "read-absent-child":
			failLine = g.add(fmt.Sprintf("%s %s.nochild.alpha;", KwPrint, v))
		case "dot-on-nil":
			failLine = g.add(fmt.Sprintf("%s (nil).alpha;", KwPrint))
		case "delete-near-miss":
			failLine = g.add(fmt.Sprintf("%s(%s, \"%s\");", FnDelete, nearVar, nearKey))
		case "read-near-miss":
			failLine = g.add(fmt.Sprintf("%s %s.%s;", KwPrint, nearVar, nearKey))
		case "read-absent-deep":
			// every hop exists, only the last property is absent
			failLine = g.add(fmt.Sprintf("%s %s.%s.%s;", KwPrint, deepVar, deepKey, deepAbsent))
		}
		g.add(fmt.Sprintf("%s \"@AFTER\";", KwPrint))
		mustFail = kind
	}
	g.add(fmt.Sprintf("%s \"@DONE\";", KwPrint))
	return strings.Join(g.lines, "\n") + "\n", &C12Expect{Blocks: g.blocks, MustFail: mustFail, FailLine: failLine, Ops: g.ops, ReplLine: g.replLine()}
}

func c12Case(s Src, tier string, nsched int) *Case {
	maxOps := 10
	if tier == "thorough" {
		maxOps = 25
	}
	prog, ex := c12Program(s, maxOps)
	cs := &Case{Prop: "C12", Kind: "ops", Program: prog, Aux: &Aux{C12: ex}}
	cs.Sig = strings.Join(ex.Ops, ",")
	if ex.MustFail != "" {
		cs.Sig += ",!" + ex.MustFail
	}
	base := scriptCfg(prog, "")
	base.TTY = drawTTY(s) // the same for every run of the case
	cs.Runs = []Run{{Role: "identity", Cfg: base}}
	rev := base
	nranges := 4*len(ex.Blocks) + 3*len(ex.Ops) + 8
	for i := 0; i < nranges; i++ {
		rev.Orders = append(rev.Orders, -1)
	}
	cs.Runs = append(cs.Runs, Run{Role: "reverse", Cfg: rev})
	// the same operations typed as one line at the interactive prompt
	rc := replCfg(ex.ReplLine + "\n")
	rc.Orders = rev.Orders
	rc.TTY = base.TTY
	cs.Runs = append(cs.Runs, Run{Role: "repl-one-line", Cfg: rc})
	for i := 0; i < nsched; i++ {
		c := base
		c.Orders = drawOrders(s, nranges)
		cs.Runs = append(cs.Runs, Run{Role: fmt.Sprintf("sched%d", i), Cfg: c})
	}
	return cs
}

func c12Random(s Src, tier string) *Case {
	n := 6
	if tier == "thorough" {
		n = 14
	}
	return applySched(s, c12Case(s, tier, n), false)
}

// c12Systematic: every single operation after a two-key literal, and small
// literals of every size, under identity / reverse / all rotations.
// c12Cyclic: aliasing + write + nesting make cyclic objects reachable; reading,
// listing and printing them must work (each property shown; how the repeated
// object is abbreviated is free). Run in a fresh process: a Go stack overflow
// cannot be recovered.
func c12Cyclic() []*Case {
	type cyc struct {
		name, prog string
		tokens     []string // must appear in the printed line after "@P"
	}
	P := KwPrint
	cs := []cyc{
		{"self", fmt.Sprintf("%s o = {alpha: 1};\no.self = o;\n%s \"@P\";\n%s o;\n%s o.self.self.alpha;\n%s %s(o);\n%s \"@DONE\";\n", KwVar, P, P, P, P, FnKeys, P), []string{"alpha", "self"}},
		{"mutual", fmt.Sprintf("%s p = {beta: 2};\n%s q = {gamma: 3};\np.fwd = q;\nq.back = p;\n%s \"@P\";\n%s p;\n%s p.fwd.back.fwd.gamma;\n%s %s(p);\n%s \"@DONE\";\n", KwVar, KwVar, P, P, P, P, FnValues, P), []string{"beta", "fwd", "gamma", "back"}},
		{"through-array", fmt.Sprintf("%s o = {list: [1, 2], delta: 4};\no.list[0] = o;\n%s \"@P\";\n%s o;\n%s o.list[0].delta;\n%s %s(o);\n%s \"@DONE\";\n", KwVar, P, P, P, P, FnValues, P), []string{"list", "delta"}},
		{"deep-20", fmt.Sprintf("%s d = {leaf: 1};\n%s (%s i = 0; i < 20; i = i + 1) { d = {child: d, n: i}; }\n%s \"@P\";\n%s d;\n%s d.child.child.child.n;\n%s %s(d);\n%s \"@DONE\";\n", KwVar, KwFor, KwVar, P, P, P, P, FnKeys, P),
			[]string{"leaf", "19", "#20xchild"}},
		{"mutual-in-literal", fmt.Sprintf("%s ka = {alpha: 1};\n%s kb = {beta: 2};\nka.next = kb;\nkb.prev = ka;\n%s \"@P\";\n%s {first: ka, last: kb};\n%s ka.next.prev.alpha;\n%s %s({first: ka, last: kb});\n%s \"@DONE\";\n", KwVar, KwVar, P, P, P, P, FnKeys, P),
			[]string{"first", "last", "#2xalpha", "#2xbeta", "next", "prev"}},
		{"shared-twice-in-array", fmt.Sprintf("%s sh = {gamma: 3};\nsh.me = sh;\n%s \"@P\";\n%s [sh, sh, {delta: sh}];\n%s sh.me.gamma;\n%s %s(sh);\n%s \"@DONE\";\n", KwVar, P, P, P, P, FnKeys, P),
			[]string{"#3xgamma", "delta"}},
		{"deep-1500", fmt.Sprintf("%s d = {leaf: 1};\n%s (%s i = 0; i < 1500; i = i + 1) { d = {child: d}; }\n%s \"@P\";\n%s d;\n%s d.child.child.child.child;\n%s %s(d);\n%s \"@DONE\";\n", KwVar, KwFor, KwVar, P, P, KwVar+" keep =", P, FnKeys, P),
			[]string{"leaf", "#1500xchild"}},
		{"repl-echo", "", nil},
	}
	var out []*Case
	for _, c := range cs {
		if c.prog == "" {
			continue
		}
		cfg := scriptCfg(c.prog, "")
		cfg.Budget = 2000000
		k := &Case{Prop: "C12", Kind: "cyclic", Sig: "cyclic:" + c.name, Program: c.prog, Runs: []Run{{Role: "fresh-process:identity", Cfg: cfg}}, Notes: c.tokens}
		k.Aux = &Aux{C12: &C12Expect{}}
		out = append(out, k)
	}
	return out
}

// c12BigCase: one object with far more properties than any small internal table
// (1200 in a literal, then 50 deleted and 50 others added, so the size stays the same), observed like any other.
func c12BigCase() *Case {
	g := &c12Gen{s: zeroSrc{}, heap: map[int]map[string]C12Val{}, vars: map[string]int{}, arrays: map[string][]int{}}
	g.prelude()
	m := map[string]C12Val{}
	var parts []string
	for i := 0; i < 1200; i++ {
		k := fmt.Sprintf("q%04d", (i*37)%1200)
		m[k] = C12Val{Num: 10000 + i}
		parts = append(parts, fmt.Sprintf("%s: %d", k, 10000+i))
	}
	id := g.newObj(m)
	g.setVar("big", id, "{"+strings.Join(parts, ", ")+"}")
	g.step = 1
	g.observe("big-literal")
	// exactly as many deleted as added below: the number of properties does not change
	for i := 0; i < 50; i++ {
		k := fmt.Sprintf("q%04d", i*23)
		g.add(fmt.Sprintf("%s(big, \"%s\");", FnDelete, k))
		delete(g.heap[id], k)
	}
	for i := 0; i < 50; i++ {
		k := fmt.Sprintf("z%03d", i)
		g.add(fmt.Sprintf("big.%s = %d;", k, 20000+i))
		g.heap[id][k] = C12Val{Num: 20000 + i}
	}
	g.step = 2
	g.observe("big-delete-add")
	g.add(fmt.Sprintf("%s \"@DONE\";", KwPrint))
	prog := strings.Join(g.lines, "\n") + "\n"
	ex := &C12Expect{Blocks: g.blocks, Ops: []string{"big-literal", "big-delete-add"}}
	cs := &Case{Prop: "C12", Kind: "ops", Sig: "big-object-1200", Program: prog, Aux: &Aux{C12: ex}}
	base := scriptCfg(prog, "")
	base.Budget = 80000000
	rev := base
	rev.Orders = []int{-1, -1, -1, -1, -1, -1, -1, -1}
	rot := base
	rot.Orders = []int{5, 17, 400, 3, 9, 250, 1, 77}
	cs.Runs = []Run{{Role: "identity", Cfg: base}, {Role: "reverse", Cfg: rev}, {Role: "rotations", Cfg: rot}}
	return cs
}

func c12Systematic(tier string) []*Case {
	var out []*Case
	out = append(out, c12Cyclic()...)
	out = append(out, c12BigCase())
	for seedv := 0; seedv < 60; seedv++ {
		src := &lcgSrc{x: uint64(seedv)*7919 + 17}
		cs := generated(src, func(s Src) *Case { return c12Case(s, "quick", 4) })
		cs.Notes = []string{"sys"}
		out = append(out, cs)
	}
	return out
}

func init() {
	register(&Property{
		ID:          "C12",
		PrunableRuns: true,
		Level:       "exploration",
		Systematic:  c12Systematic,
		Random:      c12Random,
		RandomCount: func(tier string) int { return map[string]int{"quick": 1200, "thorough": 60000}[tier] },
		Eval:        c12Eval,
		Rule: "workload = generated straight-line programs of 1..10 (quick) / 1..25 (thorough) object operations (literal with 0..6 keys, alias, write new/existing key, delete, write/delete inside a function, write through an array element and through a child property, the same literal evaluated twice, terminal must-fail operation) that print, after every step and for every live variable, the key listing, the value listing, every property by name and the whole object; schedule = one order decision per dynamic range over a Go map (identity, reverse, any permutation), each program under identity + reverse + 6 (quick) / 14 (thorough) drawn schedules; oracle = pure map model executed by the generator. " +
			"distinct_nontrivial counts distinct (operation-kind sequence, order-decision vector consumed on maps with >= 2 keys) pairs; decisions on 0/1-key maps are not counted.",
		DistinctSet: "c12_ops_x_orders",
		Assumptions: []string{
			"values are unique numbers so each listed value is attributable to one write",
			"only the presence of every 'key:' token is required of a printed object; Go's map rendering is otherwise not parsed",
			"any permutation may be handed out, more than today's Go runtime produces: sound because the Go specification leaves map order unspecified",
		},
		Components: map[string]string{
			"lexer, parser, interpreter, object built-ins": "real code (instrumented copy)",
			"order of every range over a Go map":           "stub (verifsimrt.Pairs, decided by the schedule)",
			"object semantics oracle":                      "reference model (map of maps) inside the generator",
		},
		ReachTargets: []string{"fault.map_order_non_identity", "reach.keys_and_values_ranged_in_different_orders", "reach.alias_write_observed", "reach.must_fail_terminal"},
	})
}

func c12Eval(cs *Case, ctx *EvalCtx) []Violation {
	obs := ctx.RunAll(cs)
	ex := cs.Aux.C12
	var vs []Violation
	if cs.Kind == "cyclic" {
		o := obs[0]
		mk := func(class, msg string) {
			vs = append(vs, Violation{Prop: "C12", Class: "C12/" + class, Sig: cs.Sig, Msg: msg, Run: 0})
		}
		switch {
		case o.Res.Panic != "":
			mk("host-panic", "printing / listing an object that (indirectly) contains itself killed the interpreter: "+o.Res.Panic)
		case o.Res.Budget:
			mk("no-termination", "step budget exceeded")
		case o.FirstErr >= 0 || o.ExitStatus() != 0:
			mk("unexpected-diagnostic", fmt.Sprintf("exit=%d stderr=%q", o.ExitStatus(), firstLine(o.Stderr)))
		default:
			ls := strings.Split(o.Stdout, "\n")
			if len(ls) < 5 || ls[0] != "@P" || ls[len(ls)-2] != "@DONE" {
				mk("output-truncated", fmt.Sprintf("stdout=%q", clip(o.Stdout)))
			} else {
				for _, t := range cs.Notes {
					if strings.HasPrefix(t, "#") {
						x := strings.Index(t, "x")
						want, _ := strconv.Atoi(t[1:x])
						tok := t[x+1:]
						if strings.Count(ls[1], tok) < want {
							mk("print-missing-property", fmt.Sprintf("printing shows %q: property %q must appear at least %d times (once per place the object is reached before it repeats)", clip(ls[1]), tok, want))
							break
						}
						continue
					}
					if !strings.Contains(ls[1], t) {
						mk("print-missing-property", fmt.Sprintf("printing the object shows %q: %q is missing", clip(ls[1]), t))
						break
					}
				}
			}
		}
		if ctx.Stats != nil {
			ctx.Stats.Count("reach.cyclic_object_printed", 1)
		}
		return vs
	}
	for i, o := range obs {
		if v := c12CheckRun(cs, ex, i, o); v != nil {
			vs = append(vs, *v)
		}
	}
	if ctx.Stats != nil {
		st := ctx.Stats
		for i, r := range ctx.Results {
			c := cs.Runs[i].Cfg
			var b strings.Builder
			nontrivial := false
			// keys/values ranged in different orders within one listing
			for j, n := range r.OrdersUsed {
				d := 0
				if j < len(c.Orders) {
					d = c.Orders[j]
				}
				if n >= 2 {
					fmt.Fprintf(&b, "%d:%d,", n, d)
					if d != 0 {
						nontrivial = true
					}
				}
			}
			if nontrivial {
				st.Seen("c12_ops_x_orders", cs.Sig+"|"+b.String())
			}
			// two consecutive ranges over the same >=2-key object (the key listing and
			// the value listing of one observation) decided differently
			var prevN int64 = -1
			var prevD, idx int
			for _, e := range r.Events {
				if e.Kind != "ORDER" {
					continue
				}
				d := 0
				if idx < len(c.Orders) {
					d = c.Orders[idx]
				}
				idx++
				if e.N >= 2 && prevN == e.N && d != prevD {
					st.Count("reach.keys_and_values_ranged_in_different_orders", 1)
				}
				prevN, prevD = e.N, d
			}
		}
		for _, op := range ex.Ops {
			st.Count("op."+op, 1)
			if op == "alias" || op == "array-alias" || op == "child-write" || op == "fn-write" {
				st.Count("reach.alias_write_observed", 1)
			}
		}
		if ex.MustFail != "" {
			st.Count("reach.must_fail_terminal", 1)
		}
	}
	return vs
}

func c12CheckRun(cs *Case, ex *C12Expect, run int, o Obs) *Violation {
	role := cs.Runs[run].Role
	mk := func(class, sig, msg string) *Violation {
		return &Violation{Prop: "C12", Class: "C12/" + class, Sig: sig, Msg: "[" + role + "] " + msg, Run: run}
	}
	if o.Res.Panic != "" {
		return mk("host-panic", "panic", o.Res.Panic)
	}
	if o.Res.Budget {
		return mk("no-termination", "budget", "step budget exceeded")
	}
	stdout := o.Stdout
	repl := role == "repl-one-line"
	if repl {
		// cut the prompt before the first block and whatever follows the last newline
		if i := strings.Index(stdout, "@B "); i >= 0 {
			stdout = stdout[i:]
		}
		if j := strings.LastIndex(stdout, "\n"); j >= 0 {
			stdout = stdout[:j+1]
		}
	}
	ls := strings.Split(stdout, "\n")
	p := 0
	next := func() (string, bool) {
		if p >= len(ls) {
			return "", false
		}
		l := ls[p]
		p++
		return l, true
	}
	for _, b := range ex.Blocks {
		sig := fmt.Sprintf("op:%s", b.Op)
		if b.Kind == "reprint" {
			hdr := fmt.Sprintf("@R %d %s", b.Step, b.Var)
			l, ok := next()
			if !ok || l != hdr {
				return mk("output-truncated", sig, fmt.Sprintf("expected block %q, got %q (stderr=%q)", hdr, l, firstLine(o.Stderr)))
			}
			first, _ := next()
			second, _ := next()
			if l, _ := next(); l != "@RE" {
				return mk("listing-malformed", sig, fmt.Sprintf("step %d %s: expected @RE, got %q (stderr=%q)", b.Step, b.Var, l, firstLine(o.Stderr)))
			}
			for _, n := range b.Nums {
				if !hasNumToken(first, n) {
					return mk("print-missing-value", sig, fmt.Sprintf("step %d: printing %s shows %q: the stored value %d is not shown", b.Step, b.Var, first, n))
				}
			}
			for _, n := range b.After {
				if !hasNumToken(second, n) {
					return mk("print-missing-value", sig, fmt.Sprintf("step %d: printing %s right after %s shows %q: the stored value %d is not shown (print before the operation: %q)", b.Step, b.Var, b.Op, second, n, first))
				}
			}
			for _, n := range b.Stale {
				if hasNumToken(second, n) {
					return mk("print-stale-value", sig, fmt.Sprintf("step %d: printing %s right after %s shows %q: the value %d is not stored any more", b.Step, b.Var, b.Op, second, n))
				}
			}
			continue
		}
		hdr := fmt.Sprintf("@B %d %s", b.Step, b.Var)
		l, ok := next()
		if !ok || l != hdr {
			return mk("output-truncated", sig, fmt.Sprintf("expected block %q, got %q (stderr=%q)", hdr, l, firstLine(o.Stderr)))
		}
		l1, _ := next()
		l2, _ := next()
		nk, e1 := strconv.Atoi(l1)
		nv, e2 := strconv.Atoi(l2)
		if e1 != nil || e2 != nil {
			return mk("listing-malformed", sig, fmt.Sprintf("step %d %s: listing lengths %q %q", b.Step, b.Var, l1, l2))
		}
		if nk != len(b.Model) || nv != len(b.Model) {
			return mk("listing-size", sig, fmt.Sprintf("step %d %s after %s: %d keys / %d values listed, the object has %d properties %v", b.Step, b.Var, b.Op, nk, nv, len(b.Model), sortedKeys(b.Model)))
		}
		seen := map[string]bool{}
		for i := 0; i < nk; i++ {
			k, _ := next()
			v, ok := next()
			if !ok {
				return mk("output-truncated", sig, "listing cut short")
			}
			mv, present := C12Val{}, false
			for _, mk := range sortedKeys(b.Model) {
				if nfc(mk) == k {
					mv, present = b.Model[mk], true
				}
			}
			if !present {
				return mk("listing-unknown-key", sig, fmt.Sprintf("step %d %s after %s: listed key %q is not a property (model %v)", b.Step, b.Var, b.Op, k, sortedKeys(b.Model)))
			}
			if seen[k] {
				return mk("listing-duplicate-key", sig, fmt.Sprintf("step %d %s: key %q listed twice", b.Step, b.Var, k))
			}
			seen[k] = true
			if !c12ValMatches(mv, v) {
				return mk("keys-values-mismatch", sig, fmt.Sprintf("step %d %s after %s: the %d-th key is %q but the %d-th value is %q; %s.%s is %s", b.Step, b.Var, b.Op, i, k, i, v, b.Var, k, c12ValString(mv)))
			}
		}
		if l, _ := next(); l != "@N" {
			return mk("listing-malformed", sig, fmt.Sprintf("step %d %s: expected @N, got %q", b.Step, b.Var, l))
		}
		for _, k := range sortedKeys(b.Model) {
			l, ok := next()
			if !ok || !c12ValMatches(b.Model[k], l) {
				return mk("read-mismatch", sig, fmt.Sprintf("step %d after %s: %s.%s reads %q, expected %s (stderr=%q)", b.Step, b.Op, b.Var, k, l, c12ValString(b.Model[k]), firstLine(o.Stderr)))
			}
			if child, ok := b.Deep[k]; ok {
				for _, ck := range sortedKeys(child) {
					if child[ck].Ref > 0 {
						continue
					}
					l, ok := next()
					if !ok || !c12ValMatches(child[ck], l) {
						return mk("shared-reference-broken", sig, fmt.Sprintf("step %d after %s: %s.%s.%s reads %q, but the object it refers to has %s = %s (stderr=%q)", b.Step, b.Op, b.Var, k, ck, l, ck, c12ValString(child[ck]), firstLine(o.Stderr)))
					}
				}
			}
		}
		if l, _ := next(); l != "@P" {
			return mk("listing-malformed", sig, fmt.Sprintf("step %d %s: expected @P, got %q", b.Step, b.Var, l))
		}
		whole, _ := next()
		for _, k := range sortedKeys(b.Model) {
			if !strings.Contains(whole, nfc(k)) {
				return mk("print-missing-property", sig, fmt.Sprintf("step %d: printing %s shows %q, property %q is missing", b.Step, b.Var, whole, k))
			}
		}
		var tk []string
		for k := range b.Tokens {
			tk = append(tk, k)
		}
		sort.Strings(tk)
		for _, k := range tk {
			if strings.Count(whole, nfc(k)) < b.Tokens[k] {
				return mk("print-missing-property", sig, fmt.Sprintf("step %d: printing %s shows %q: property %q must appear %d times (nested objects included)", b.Step, b.Var, whole, k, b.Tokens[k]))
			}
		}
		for _, n := range b.Nums {
			if !hasNumToken(whole, n) {
				return mk("print-missing-value", sig, fmt.Sprintf("step %d after %s: printing %s shows %q: the stored value %d is not shown", b.Step, b.Op, b.Var, whole, n))
			}
		}
		for _, n := range b.Stale {
			if hasNumToken(whole, n) {
				return mk("print-stale-value", sig, fmt.Sprintf("step %d after %s: printing %s shows %q: the value %d is not stored any more", b.Step, b.Op, b.Var, whole, n))
			}
		}
		if l, _ := next(); l != "@E" {
			return mk("listing-malformed", sig, fmt.Sprintf("step %d %s: expected @E, got %q", b.Step, b.Var, l))
		}
	}
	if ex.MustFail != "" {
		sig := "terminal:" + ex.MustFail
		if l, _ := next(); l != "@T" {
			return mk("output-truncated", sig, fmt.Sprintf("expected @T, got %q", l))
		}
		rest := strings.Join(ls[p:], "\n")
		if o.FirstErr < 0 || (o.ExitStatus() != 70 && !repl) {
			return mk("invalid-operation-accepted", sig, fmt.Sprintf("%s must be a runtime error; exit=%d stderr=%q stdout tail=%q", ex.MustFail, o.ExitStatus(), o.Stderr, rest))
		}
		if strings.Contains(rest, "@AFTER") || strings.Contains(rest, "@DONE") {
			return mk("invalid-operation-accepted", sig, fmt.Sprintf("execution continued after %s: %q", ex.MustFail, rest))
		}
		if _, ln, ok := FirstDiagnostic(o.Stderr); ok && ln != ex.FailLine && !repl {
			return mk("early-diagnostic", sig, fmt.Sprintf("diagnostic names line %d, the failing operation is on line %d: %q", ln, ex.FailLine, firstLine(o.Stderr)))
		}
		return nil
	}
	if l, _ := next(); l != "@DONE" {
		return mk("output-truncated", "end", fmt.Sprintf("expected @DONE, got %q (stderr=%q)", l, firstLine(o.Stderr)))
	}
	if o.FirstErr >= 0 || o.ExitStatus() != 0 {
		return mk("unexpected-diagnostic", "end", fmt.Sprintf("exit=%d stderr=%q", o.ExitStatus(), o.Stderr))
	}
	return nil
}

func c12ValMatches(v C12Val, line string) bool {
	// how a nested object or array is rendered is not C12's business: any non-empty text
	if v.ArrRef > 0 && v.ArrNum > 0 {
		return hasNumToken(line, v.ArrNum)
	}
	if v.Ref > 0 || v.ArrRef > 0 {
		return strings.TrimSpace(line) != ""
	}
	if v.Text == "[1 2]" {
		return strings.Contains(line, "1") && strings.Contains(line, "2") && !strings.Contains(line, "3")
	}
	if v.Empty {
		return line == ""
	}
	if v.Text != "" {
		return line == v.Text
	}
	return line == strconv.Itoa(v.Num)
}

func c12ValString(v C12Val) string {
	if v.Ref > 0 {
		return "an object"
	}
	if v.ArrRef > 0 {
		return "an array holding an object"
	}
	if v.Empty {
		return "the empty string"
	}
	if v.Text != "" {
		return v.Text
	}
	return strconv.Itoa(v.Num)
}

// hasNumToken: the decimal digits of n occur in text, not as part of a longer number or word
func hasNumToken(text string, n int) bool {
	d := strconv.Itoa(n)
	isWord := func(c byte) bool {
		return c >= '0' && c <= '9' || c >= 'a' && c <= 'z' || c >= 'A' && c <= 'Z' || c == '_' || c == '.' || c >= 0x80
	}
	for i := 0; ; {
		j := strings.Index(text[i:], d)
		if j < 0 {
			return false
		}
		a, b := i+j, i+j+len(d)
		if (a == 0 || !isWord(text[a-1])) && (b == len(text) || !isWord(text[b]) || text[b] == '.' && (b+1 == len(text) || text[b+1] < '0' || text[b+1] > '9')) {
			return true
		}
		i = a + 1
	}
}

// nfc: দেখাও prints text in NFC, so listed keys are compared in that form
func nfc(s string) string { return norm.NFC.String(s) }

var _ = sim.DefaultBudget
